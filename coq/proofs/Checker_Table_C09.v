(* The C09 checker (run/Run_TableCheck.v, c09_ok) never raises an alarm on the observations
   the table model itself produces. *)
From BT Require Import model.Prelude model.Table gen.Consts proofs.Prelude_Facts proofs.Table_Facts proofs.TableInv_Facts proofs.TableOps_Facts proofs.Closest_Facts proofs.Checker_Table_Base run.Run_Table run.Run_TableCheck.
From Coq Require Import ZifyBool ZifyN ZifyNat Permutation.
Open Scope Z_scope.

(* ------------------------------------------------------------------ the xor metric is an ultrametric *)
Lemma size_lxor_lt x y : (N.size x < N.size y)%N -> N.size (N.lxor x y) = N.size y.
Proof.
  intros H.
  assert (Hy : y <> 0%N) by (intros ->; cbn in H; lia).
  rewrite (N.size_log2 y Hy) in *.
  remember (N.log2 y) as k eqn:Ek.
  assert (Hyk : N.testbit y k = true) by (subst k; apply N.bit_log2, Hy).
  assert (Hxl : x = 0%N \/ (N.log2 x < k)%N).
  { destruct (N.eq_dec x 0) as [->|Hx]; [left; reflexivity|]. right. rewrite (N.size_log2 x Hx) in H. lia. }
  assert (Hxk : N.testbit x k = false).
  { destruct Hxl as [->|Hl]; [apply N.bits_0 | apply N.bits_above_log2, Hl]. }
  assert (Hbit : N.testbit (N.lxor x y) k = true) by (rewrite N.lxor_spec, Hxk, Hyk; reflexivity).
  assert (Hnz : N.lxor x y <> 0%N) by (intros E; rewrite E, N.bits_0 in Hbit; discriminate).
  rewrite (N.size_log2 _ Hnz). f_equal.
  assert (Hge : (k <= N.log2 (N.lxor x y))%N).
  { destruct (N.le_gt_cases k (N.log2 (N.lxor x y))) as [Hle|Hgt]; [exact Hle|].
    rewrite (N.bits_above_log2 _ _ Hgt) in Hbit. discriminate. }
  pose proof (N.log2_lxor x y) as Hle. rewrite <- Ek in Hle.
  assert (Hx0 : (N.log2 x <= k)%N) by (destruct Hxl as [->|Hl]; [cbn; lia | lia]).
  lia.
Qed.

Lemma lxor_via l n tg : N.lxor l n = N.lxor (N.lxor n tg) (N.lxor l tg).
Proof.
  apply N.bits_inj_iff. intros k. rewrite !N.lxor_spec.
  destruct (N.testbit l k), (N.testbit n k), (N.testbit tg k); reflexivity.
Qed.

Lemma lcp_ultrametric l n tg : (lcp l tg < lcp n tg)%nat -> lcp l n = lcp l tg.
Proof.
  unfold lcp. rewrite max_buckets_val. intros H.
  rewrite (lxor_via l n tg).
  remember (N.lxor n tg) as x. remember (N.lxor l tg) as y.
  rewrite (size_lxor_lt x y) by lia. reflexivity.
Qed.

(* ------------------------------------------------------------------ list helpers *)
Lemma firstn_mono_in {A} (x : A) : forall l k k', In x (firstn k l) -> (k <= k')%nat -> In x (firstn k' l).
Proof.
  induction l as [|a l IH]; intros k k' H Hk; [rewrite firstn_nil in H; destruct H|].
  destruct k as [|k]; [destruct H|]. destruct k' as [|k']; [lia|].
  cbn [firstn] in *. destruct H as [H|H]; [left; exact H | right; apply (IH k); [exact H | lia]].
Qed.

Lemma filter_all_length {A} (p : A -> bool) l : (forall x, In x l -> p x = true) -> length (filter p l) = length l.
Proof.
  induction l as [|a l IH]; intros H; cbn [filter length]; [reflexivity|].
  rewrite (H a (or_introl eq_refl)). cbn [length]. rewrite IH; [reflexivity|]. intros y Hy. apply H. right. exact Hy.
Qed.

Lemma filter_none_length {A} (p : A -> bool) l : (forall x, In x l -> p x = false) -> length (filter p l) = 0%nat.
Proof.
  induction l as [|a l IH]; intros H; cbn [filter length]; [reflexivity|].
  rewrite (H a (or_introl eq_refl)). apply IH. intros y Hy. apply H. right. exact Hy.
Qed.

(* if only bucket j can hold elements satisfying f, the filtered concatenation is no longer than bucket j *)
Lemma filter_concat_one {A} (f : A -> bool) : forall (bs : list (list A)) j,
  (forall i b x, nth_error bs i = Some b -> i <> j -> In x b -> f x = false) ->
  (length (filter f (concat bs)) <= length (nth j bs []))%nat.
Proof.
  induction bs as [|b bs IH]; intros j H; [cbn; lia|].
  cbn [concat]. rewrite filter_app, app_length.
  destruct j as [|j].
  - cbn [nth].
    assert (E : length (filter f (concat bs)) = 0%nat).
    { apply filter_none_length. intros x Hx. apply in_concat in Hx as [b' [Hb' Hx]].
      apply In_nth_error in Hb' as [i Hi]. apply (H (S i) b' x Hi); [lia | exact Hx]. }
    rewrite E. pose proof (filter_length_le' f b). lia.
  - cbn [nth].
    assert (E : length (filter f b) = 0%nat).
    { apply filter_none_length. intros x Hx. apply (H O b x eq_refl); [lia | exact Hx]. }
    rewrite E. cbn [Nat.add]. apply IH. intros i b' x Hi Hne Hx. apply (H (S i) b' x Hi); [lia | exact Hx].
Qed.

Lemma in_nth_nil {A} (x : A) (l : list (list A)) i : In x (nth i l []) -> exists b, nth_error l i = Some b /\ In x b.
Proof.
  intros H. destruct (nth_error l i) as [b|] eqn:E.
  - exists b. split; [reflexivity|]. rewrite (nth_error_nth _ _ _ E) in H. exact H.
  - apply nth_error_None in E. rewrite nth_overflow in H by exact E. destruct H.
Qed.

Lemma in_nth_of {A} (x : A) (l : list (list A)) i b : nth_error l i = Some b -> In x b -> In x (nth i l []).
Proof. intros H Hx. rewrite (nth_error_nth _ _ [] H). exact Hx. Qed.

Lemma nth_len_le {A} (bs : list (list A)) j k : (forall b, In b bs -> length b = k) -> (length (nth j bs []) <= k)%nat.
Proof.
  intros H. destruct (nth_in_or_default j bs []) as [Hin|E]; [rewrite (H _ Hin); lia | rewrite E; cbn; lia].
Qed.

Lemma nth_error_removelast {A} (l : list A) i b : nth_error l i = Some b -> (i < length l - 1)%nat ->
  nth_error (removelast l) i = Some b.
Proof.
  intros H Hi. destruct l as [|a l0] eqn:El; [destruct i; discriminate|]. rewrite <- El in *.
  assert (Hne : l <> []) by (rewrite El; discriminate).
  rewrite (app_removelast_last b Hne) in H. rewrite nth_error_app1 in H; [exact H|].
  rewrite removelast_length. exact Hi.
Qed.

Lemma nth_error_lt {A} (l : list A) i b : nth_error l i = Some b -> (i < length l)%nat.
Proof. intros H. apply nth_error_Some. rewrite H. discriminate. Qed.

Ltac case_if H :=
  match type of H with
  | (if ?c then _ else _) =>
      let E := fresh "Ec" in destruct c eqn:E; [apply Nat.ltb_lt in E | apply Nat.ltb_ge in E]
  end.

(* ------------------------------------------------------------------ where the live nodes of a given prefix length sit *)
Definition sorted_of (t : table) : list bucket :=
  if Nat.eqb (length (buckets t)) max_buckets then buckets t else removelast (buckets t).
Definition assorted_of (t : table) : bucket :=
  if Nat.eqb (length (buckets t)) max_buckets then [] else List.last (buckets t) [].
(* what the enumeration yields first when it starts at bucket index s *)
Definition block (now : Z) (t : table) (s : nat) : list node :=
  filter (is_pingable now) (nth s (sorted_of t) [])
  ++ filter (fun n => is_pingable now n && Nat.eqb (lcp (local_id t) (nd_id n)) s) (assorted_of t).

Lemma closest_block now t target :
  exists rest, closest_nodes now t target = block now t (lcp (local_id t) target) ++ rest.
Proof. exact (closest_starts_at_target_bucket now t target). Qed.

Lemma live_bucket_lcp now t i b n : TInv t -> nth_error (buckets t) i = Some b -> In n b ->
  is_pingable now n = true ->
  (if Nat.ltb i (length (buckets t) - 1) then lcp (local_id t) (nd_id n) = i
   else (length (buckets t) - 1 <= lcp (local_id t) (nd_id n))%nat) /\
  (lcp (local_id t) (nd_id n) < 160)%nat.
Proof.
  intros I Hi Hn Hp. destruct (ti_placed _ I i b n Hi Hn (live_real now n Hp)) as [A1 [_ [_ A4]]].
  split; [exact A4|]. apply lcp_lt_160. intros E. apply A1. symmetry. exact E.
Qed.

Lemma block_lcp now t s n : TInv t -> In n (block now t s) -> lcp (local_id t) (nd_id n) = s.
Proof.
  intros I H. unfold block in H. apply in_app_or in H as [H|H].
  - apply filter_In in H as [H Hp]. apply in_nth_nil in H as [b [Hb Hn]].
    unfold sorted_of in Hb. rewrite max_buckets_val in Hb.
    destruct (Nat.eqb_spec (length (buckets t)) 160) as [E|E].
    + destruct (live_bucket_lcp now t s b n I Hb Hn Hp) as [A B].
      assert (Hs : (s < length (buckets t))%nat) by (eapply nth_error_lt; eassumption).
      destruct (Nat.ltb_spec s (length (buckets t) - 1)); [exact A | lia].
    + apply removelast_nth_error in Hb as [Hb Hs].
      destruct (live_bucket_lcp now t s b n I Hb Hn Hp) as [A B].
      case_if A; unfold bucket in *; [exact A | lia].
  - apply filter_In in H as [_ H]. apply andb_true_iff in H as [_ H]. apply Nat.eqb_eq in H. exact H.
Qed.

Lemma block_complete now t n : TInv t -> In n (live_nodes now t) ->
  In n (block now t (lcp (local_id t) (nd_id n))).
Proof.
  intros I H. apply live_nodes_in in H as [[b [Hb Hn]] Hp].
  apply In_nth_error in Hb as [i Hi].
  destruct (live_bucket_lcp now t i b n I Hi Hn Hp) as [A B].
  assert (Hil : (i < length (buckets t))%nat) by (eapply nth_error_lt; eassumption).
  pose proof (ti_len2 _ I) as L2.
  unfold block, sorted_of, assorted_of. rewrite max_buckets_val. apply in_or_app.
  destruct (Nat.ltb_spec i (length (buckets t) - 1)) as [Hlt|Hge].
  - left. rewrite A. apply filter_In. split; [|exact Hp].
    destruct (Nat.eqb_spec (length (buckets t)) 160) as [E|E].
    + eapply in_nth_of; [exact Hi | exact Hn].
    + eapply in_nth_of; [exact (nth_error_removelast _ _ _ Hi Hlt) | exact Hn].
  - assert (Ei : i = (length (buckets t) - 1)%nat) by lia.
    destruct (Nat.eqb_spec (length (buckets t)) 160) as [E|E].
    + left. assert (Es : lcp (local_id t) (nd_id n) = i) by lia. rewrite Es.
      apply filter_In. split; [|exact Hp]. eapply in_nth_of; [exact Hi | exact Hn].
    + right. apply filter_In. split.
      * assert (Hne : buckets t <> []) by (intros E0; rewrite E0 in Hil; cbn in Hil; lia).
        pose proof (nth_error_last (buckets t) [] Hne) as Hl. rewrite <- Ei, Hi in Hl.
        inversion Hl as [Hb]. rewrite <- Hb. exact Hn.
      * rewrite Hp, Nat.eqb_refl. reflexivity.
Qed.

(* all live nodes sharing exactly s leading bits with the local id sit in one bucket *)
Lemma one_bucket now t s i b x : TInv t ->
  nth_error (buckets t) i = Some b ->
  i <> (if Nat.ltb s (length (buckets t) - 1) then s else (length (buckets t) - 1)%nat) ->
  In x b -> is_pingable now x = true -> lcp (local_id t) (nd_id x) <> s.
Proof.
  intros I Hi Hne Hx Hp.
  destruct (live_bucket_lcp now t i b x I Hi Hx Hp) as [A B].
  assert (Hil : (i < length (buckets t))%nat) by (eapply nth_error_lt; eassumption).
  destruct (Nat.ltb_spec i (length (buckets t) - 1)); destruct (Nat.ltb_spec s (length (buckets t) - 1)); lia.
Qed.

Lemma live_prefix_count now t s (g : node -> bool) : TInv t ->
  (forall n, In n (live_nodes now t) -> g n = true -> lcp (local_id t) (nd_id n) = s) ->
  (length (filter g (live_nodes now t)) <= 8)%nat.
Proof.
  intros I Hg. unfold live_nodes. rewrite filter_filter_and.
  set (j := if Nat.ltb s (length (buckets t) - 1) then s else (length (buckets t) - 1)%nat).
  eapply Nat.le_trans; [apply (filter_concat_one _ (buckets t) j)|].
  - intros i b x Hi Hne Hx. destruct (is_pingable now x) eqn:Hp; [|reflexivity]. cbn [andb].
    destruct (g x) eqn:Gx; [|reflexivity]. exfalso.
    apply (one_bucket now t s i b x I Hi Hne Hx Hp). apply Hg; [|exact Gx].
    apply live_nodes_in. split; [|exact Hp]. exists b. split; [eapply nth_error_In; exact Hi | exact Hx].
  - apply nth_len_le. apply (ti_size _ I).
Qed.

(* ------------------------------------------------------------------ the Dump ; Closest clause on the model *)
Lemma hd_as_slot l :
  map hd_s (map (fun h : N * addr => ((1%N, fst h, snd h) : slot)) (map (fun n => (nd_id n, nd_addr n)) l)) = map hd_n l.
Proof. rewrite !map_map. apply map_ext. intros n. reflexivity. Qed.

Lemma id_of_slot_of now n : is_pingable now n = true -> id_of (slot_of now n) = nd_id n.
Proof. intros H. rewrite (slot_of_live _ _ H). reflexivity. Qed.

Lemma live_pingable now t n : In n (live_nodes now t) -> is_pingable now n = true.
Proof. intros H. apply live_nodes_in in H. apply H. Qed.

Lemma c09_closest_model now t target : TInv t ->
  c09_closest (local_id t) (dump_of now t) target
    (map (fun n => (nd_id n, nd_addr n)) (closest_nodes now t target)) = true.
Proof.
  intros I. unfold c09_closest. cbn zeta.
  pose proof (closest_is_permutation now t target (TInv_enum_ok now t I)) as P.
  assert (HL : map hd_s (map (slot_of now) (live_nodes now t)) = map hd_n (live_nodes now t))
    by (rewrite <- live_of_dump; apply live_hd_dump).
  rewrite live_of_dump.
  match goal with |- context [@map (N * addr) slot ?f ?l] => set (C := @map (N * addr) slot f l) end.
  assert (HC : map hd_s C = map hd_n (closest_nodes now t target)) by apply hd_as_slot.
  repeat (apply andb_true_iff; split).
  - apply Nat.eqb_eq. unfold C. rewrite !map_length. apply Permutation_length, P.
  - apply nodup_h_NoDup. rewrite HC. exact (closest_handles_nodup now t target I).
  - apply forallb_forall. intros c Hc. apply existsb_same_h. rewrite HL.
    assert (H : In (hd_s c) (map hd_s C)) by (apply in_map, Hc). rewrite HC in H.
    eapply Permutation_in; [apply Permutation_map, P | exact H].
  - apply forallb_forall. intros x Hx. apply filter_In in Hx as [Hx Hnear]. apply in_map_iff in Hx as [n [<- Hn]].
    pose proof (live_pingable _ _ _ Hn) as Hp.
    rewrite (id_of_slot_of _ _ Hp) in Hnear. apply Nat.ltb_lt in Hnear.
    apply existsb_same_h. rewrite (hd_slot_of _ _ Hp). rewrite <- firstn_map, HC.
    destruct (closest_block now t target) as [rest Hrest].
    pose proof (lcp_ultrametric (local_id t) (nd_id n) target Hnear) as Hs.
    assert (Hb : In n (block now t (lcp (local_id t) target))) by (rewrite <- Hs; apply block_complete; assumption).
    apply (firstn_mono_in _ _ (length (block now t (lcp (local_id t) target)))).
    + rewrite Hrest, map_app, firstn_app, map_length, Nat.sub_diag. cbn [firstn]. rewrite app_nil_r.
      rewrite firstn_all2 by (rewrite map_length; lia). apply in_map, Hb.
    + rewrite filter_map_comm, map_length.
      rewrite (filter_ext_in' _ (fun n => Nat.eqb (lcp (local_id t) (nd_id n)) (lcp (local_id t) target)) (live_nodes now t))
        by (intros y Hy; rewrite (id_of_slot_of _ _ (live_pingable _ _ _ Hy)); reflexivity).
      rewrite <- (perm_filter_length _ _ _ P). rewrite Hrest, filter_app, app_length.
      rewrite filter_all_length; [lia|]. intros y Hy. apply Nat.eqb_eq. apply (block_lcp now); assumption.
  - apply Nat.leb_le. rewrite filter_map_comm, map_length.
    apply (live_prefix_count now t (lcp (local_id t) target)); [exact I|].
    intros n Hn Hg. apply Nat.ltb_lt in Hg. rewrite (id_of_slot_of _ _ (live_pingable _ _ _ Hn)) in Hg.
    apply lcp_ultrametric, Hg.
Qed.

(* ------------------------------------------------------------------ the whole run *)
(* one step of the checker: unless the head is Dump;Closest at one instant with a failing clause,
   the checker moves on *)
Lemma c09_check_step local o r x obs i :
  (forall now target r2 d cl obs2, o = TDump now -> r = TClosest now target :: r2 ->
     x = ObDump d -> obs = ObClosest cl :: obs2 -> c09_closest local d target cl = true) ->
  c09_check local (o :: r) (x :: obs) i = c09_check local r obs (i + 1)%N.
Proof.
  intros H. destruct o as [a|now good id a|now id a named|now id a|now id a|now|now target|now]; try reflexivity.
  destruct r as [|o2 r2]; [destruct x; reflexivity|].
  destruct o2 as [a|now' good id a|now' id a named|now' id a|now' id a|now'|now' target|now'];
    try (destruct x; reflexivity).
  destruct x as [| |d| |]; try reflexivity.
  destruct obs as [|x2 obs2]; [reflexivity|].
  destruct x2 as [| | |cl|]; try reflexivity.
  cbn [c09_check]. destruct (Z.eqb_spec now now') as [<-|Hne]; cbn [andb]; [|reflexivity].
  rewrite (H now target r2 d cl obs2 eq_refl eq_refl eq_refl eq_refl). reflexivity.
Qed.

Lemma c09_check_run : forall ops t i local, TInv t -> local_id t = local ->
  no_router ops = true -> forallb rtop_okb ops = true ->
  c09_check local ops (rt_run t ops) i = None.
Proof.
  induction ops as [|o r IH]; intros t i local I Hl Hnr Hok; [reflexivity|].
  rewrite no_router_cons in Hnr. apply andb_true_iff in Hnr as [Hr Hnr]. apply negb_true_iff in Hr.
  cbn [forallb] in Hok. apply andb_true_iff in Hok as [Ho Hok].
  destruct (rtop_ok_top t o Ho Hr I) as [I' [Hl' _]].
  rewrite rt_run_cons. rewrite c09_check_step.
  - apply IH; [exact I' | congruence | exact Hnr | exact Hok].
  - intros now target r2 d cl obs2 -> -> Hd Hc.
    cbn [rt_step fst snd] in Hd, Hc. rewrite rt_run_cons in Hc. cbn [rt_step fst snd] in Hc.
    inversion Hd; subst d. inversion Hc; subst cl. subst local.
    apply (c09_closest_model now t target I).
Qed.

Lemma c09_check_routers : forall ops rts i local, routers_first ops = true -> forallb rtop_okb ops = true ->
  c09_check local ops (rt_run (init_table local rts) ops) i = None.
Proof.
  induction ops as [|o r IH]; intros rts i local Hrf Hok; [reflexivity|].
  destruct (is_router o) eqn:Er.
  - destruct o; try discriminate. cbn [routers_first] in Hrf.
    cbn [forallb] in Hok. apply andb_true_iff in Hok as [_ Hok].
    rewrite rt_run_cons, rt_step_router. cbn [fst snd]. rewrite init_table_router.
    rewrite c09_check_step by (intros; discriminate). apply IH; assumption.
  - apply c09_check_run; [apply TInv_init | reflexivity | | exact Hok].
    destruct o; try discriminate; exact Hrf.
Qed.

Theorem c09_ok_model_silent : forall local ops, script_ok ops = true -> c09_ok local ops (model_obs local ops) = None.
Proof.
  intros local ops H. unfold script_ok in H. apply andb_true_iff in H as [H1 H2].
  unfold c09_ok, model_obs. rewrite new_table_init. apply c09_check_routers; assumption.
Qed.

Print Assumptions c09_ok_model_silent.
