(* C09 -- find_node/get_peers node lists: enumeration of the nearest nodes.
   Property theorems only (table part; the take-8-per-family part is in the handler model). *)
From BT Require Import model.Prelude model.Compact model.Krpc model.Table model.Handler.
From BT Require Import proofs.Table_Facts proofs.TableInv_Facts proofs.TableOps_Facts proofs.Closest_Facts.
From Coq Require Import Permutation.
Open Scope Z_scope.

(* for every start index 0..160 (the shared prefix length of target and local id never exceeds
   160: the bound IS the whole domain) the alternating bucket walk visits every bucket index below
   160 exactly once *)
Theorem c09_walk_perm : forall start, (start <= 160)%nat ->
  Permutation (walk160 start) (seq 0 160).
Proof. exact walk_perm. Qed.

(* enumerating the nearest nodes for ANY target visits every live table node exactly once *)
Theorem c09_enumeration_perm : forall now t target, TInv t ->
  Permutation (closest_nodes now t target) (live_nodes now t).
Proof. intros. apply closest_is_permutation, TInv_enum_ok. assumption. Qed.

(* ... in particular on every table reachable by any history of operations *)
Theorem c09_enumeration_all_histories : forall id rts ops now target, Forall op_ok ops ->
  Permutation (closest_nodes now (fold_left tstep ops (init_table id rts)) target)
              (live_nodes now (fold_left tstep ops (init_table id rts))).
Proof. intros. apply c09_enumeration_perm. apply table_inv_all_histories. assumption. Qed.


(* the node lists of a find_node / get_peers reply (handler part): distinct contacts, each a live entry of the
   table, never the node itself *)
Theorem c09_reply_distinct : forall now t own_v6 target w, TInv t ->
  let '(n4, n6) := find_closest now t own_v6 target w in
  NoDup (map (fun h => (n_id h, n_addr h)) n4) /\ NoDup (map (fun h => (n_id h, n_addr h)) n6) /\
  (forall h, In h (n4 ++ n6) -> exists n, In n (live_nodes now t) /\ h = nodeh_of n /\ n_id h <> local_id t).
Proof. exact reply_nodes_distinct. Qed.

(* how many: min(8, live nodes of the family) -- no live node is withheld while there is room *)
Theorem c09_reply_count : forall now t own_v6 target w, TInv t ->
  let '(n4, n6) := find_closest now t own_v6 target w in
  let fam v6 := length (filter (fun n => Bool.eqb (a_v6 (nd_addr n)) v6) (live_nodes now t)) in
  match (match w with Some x => x | None => if own_v6 then WantV6 else WantV4 end) with
  | WantV4 => length n4 = Nat.min Consts.handler_nodes_take_v4_nat (fam false)
  | WantV6 => length n6 = Nat.min Consts.handler_nodes_take_v6_nat (fam true)
  | WantBoth => length n4 = Nat.min Consts.handler_nodes_take_v4_nat (fam false) /\
                length n6 = Nat.min Consts.handler_nodes_take_v6_nat (fam true)
  end.
Proof. exact reply_nodes_count. Qed.

(* nearest bucket first: the enumeration begins with the live nodes of the bucket the target falls into
   (sorted bucket of that index, then the nodes of the catch-all last bucket whose ideal index it is) *)
Theorem c09_nearest_bucket_first : forall now t target,
  let bs := buckets t in
  let full := Nat.eqb (length bs) max_buckets in
  let sorted := if full then bs else removelast bs in
  let assorted := if full then [] else List.last bs [] in
  let i := lcp (local_id t) target in
  exists rest, closest_nodes now t target =
    (filter (is_pingable now) (nth i sorted [])
     ++ filter (fun n => is_pingable now n && Nat.eqb (lcp (local_id t) (nd_id n)) i) assorted) ++ rest.
Proof. exact closest_starts_at_target_bucket. Qed.

Print Assumptions c09_walk_perm.
Print Assumptions c09_reply_distinct.
Print Assumptions c09_reply_count.
Print Assumptions c09_nearest_bucket_first.
Print Assumptions c09_enumeration_perm.
Print Assumptions c09_enumeration_all_histories.

Example c09_nonvacuous :
  let a (k : N) := mkAddr false (167772160 + k)%N 6881 in
  let t := fold_left tstep [OOffer 0 true 1%N (a 1%N); OOffer 0 false (2 ^ 159)%N (a 2%N); OOffer 0 true 3%N (a 3%N)] (init_table 0%N []) in
  map nd_id (closest_nodes 5 t 2%N) = [3%N; 1%N; (2 ^ 159)%N] /\ (length (live_nodes 5 t) = 3)%nat.
Proof. vm_compute. split; reflexivity. Qed.

(* ------------------------------------------------------------------------------------------
   The executable checker c09_ok (run/Run_TableCheck.v), which is what is evaluated on the
   dumps of the REAL routing table, versus the model the theorems above are about. *)
From BT Require Import run.Run_Table run.Run_TableCheck proofs.Checker_Table_Facts.

(* completeness on the model: on the model's own observations the checker never raises an alarm,
   for every local id and every script in which the router addresses come first and no offered or
   named address is the placeholder 127.0.0.1:0 of empty slots (what the generators emit) *)
Theorem c09_checker_accepts_model : forall (local : N) (ops : list rtop),
  routers_first ops && forallb rtop_okb ops = true ->
  c09_ok local ops (model_obs local ops) = None.
Proof. exact c09_ok_model_silent. Qed.

(* soundness: whenever the checker accepts a trace, at every  Dump ; Closest(target)  pair taken at
   one instant the observed enumeration cl is a duplicate-free listing of exactly the live slots of
   the observed dump d (as handles), every live node sharing a longer prefix with the target than
   the local id does is among the first nodes emitted (as many as there are live nodes in the
   target's own bucket range), and there are at most 8 such nodes *)
Theorem c09_checker_sound : forall (local : N) (ops : list rtop) (obs : list rtobs),
  c09_ok local ops obs = None ->
  forall k t target d cl,
    nth_error ops k = Some (TDump t) -> nth_error ops (S k) = Some (TClosest t target) ->
    nth_error obs k = Some (ObDump d) -> nth_error obs (S k) = Some (ObClosest cl) ->
    length cl = length (live_of d)
    /\ NoDup cl
    /\ (forall h, In h cl -> exists x, In x (live_of d) /\ hd_s x = h)
    /\ (forall x, In x (live_of d) -> In (hd_s x) cl)
    /\ NoDup (map hd_s (live_of d))
    /\ Permutation cl (map hd_s (live_of d))
    /\ (forall x, In x (live_of d) -> (lcp local target < lcp (id_of x) target)%nat ->
          In (hd_s x)
             (firstn (length (filter (fun x => Nat.eqb (lcp local (id_of x)) (lcp local target)) (live_of d))) cl))
    /\ (length (filter (fun x => Nat.ltb (lcp local target) (lcp (id_of x) target)) (live_of d)) <= 8)%nat.
Proof. exact c09_ok_sound. Qed.

Print Assumptions c09_checker_accepts_model.
Print Assumptions c09_checker_sound.
