(* C09 -- find_node/get_peers node lists: enumeration of the nearest nodes.
   Property theorems only (table part; the take-8-per-family part is in the handler model). *)
From BT Require Import model.Prelude model.Table proofs.Table_Facts proofs.TableInv_Facts proofs.TableOps_Facts.
From Coq Require Import Permutation.
Open Scope Z_scope.

(* for every start index 0..160 (the shared prefix length of target and local id never exceeds
   160: the bound IS the whole domain) the alternating bucket walk visits every bucket index below
   160 exactly once *)
Theorem c09_walk_perm : forall start, (start <= 160)%nat ->
  Permutation (walk160 start) (seq 0 160).
Proof. exact walk_perm. Qed.

(* enumerating the nearest nodes for ANY target visits every live table node exactly once *)
Theorem c09_enumeration_perm : forall now t target, TInv t ->
  Permutation (closest_nodes now t target) (live_nodes now t).
Proof. intros. apply closest_is_permutation, TInv_enum_ok. assumption. Qed.

(* ... in particular on every table reachable by any history of operations *)
Theorem c09_enumeration_all_histories : forall id rts ops now target, Forall op_ok ops ->
  Permutation (closest_nodes now (fold_left tstep ops (init_table id rts)) target)
              (live_nodes now (fold_left tstep ops (init_table id rts))).
Proof. intros. apply c09_enumeration_perm. apply table_inv_all_histories. assumption. Qed.

Print Assumptions c09_walk_perm.
Print Assumptions c09_enumeration_perm.
Print Assumptions c09_enumeration_all_histories.

Example c09_nonvacuous :
  let a (k : N) := mkAddr false (167772160 + k)%N 6881 in
  let t := fold_left tstep [OOffer 0 true 1%N (a 1%N); OOffer 0 false (2 ^ 159)%N (a 2%N); OOffer 0 true 3%N (a 3%N)] (init_table 0%N []) in
  map nd_id (closest_nodes 5 t 2%N) = [3%N; 1%N; (2 ^ 159)%N] /\ (length (live_nodes 5 t) = 3)%nat.
Proof. vm_compute. split; reflexivity. Qed.
