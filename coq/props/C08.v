(* C08 -- the routing table keeps its shape; a node is only traded for a strictly
   better one.  Property theorems only. *)
From BT Require Import model.Prelude model.Table proofs.Table_Facts proofs.TableInv_Facts proofs.TableOps_Facts.
Open Scope Z_scope.

(* The shape invariant holds after EVERY history of offers (responder = good, hearsay =
   questionable), whole responses (responder + named nodes), queries sent and queries received,
   at arbitrary times, for every local id and router set.  (op_ok: offered addresses are not the
   placeholder 127.0.0.1:0 of empty slots.)  The recursion add_node / bucket_node / split_bucket
   is covered for every fuel, in particular the one the model runs with. *)
Theorem c08_inv_all_histories : forall (id : N) (rts : list addr) (ops : list top),
  Forall op_ok ops ->
  TInv (fold_left tstep ops (init_table id rts)) /\
  local_id (fold_left tstep ops (init_table id rts)) = id /\
  routers (fold_left tstep ops (init_table id rts)) = rts.
Proof. exact table_inv_all_histories. Qed.

(* What the invariant means for the live (good or questionable) part at any instant:
   1..160 buckets of exactly 8 slots; no live node with the local id or a router address; every
   live node in the bucket matching its shared prefix length (the last bucket holds all longer
   prefixes); no (id, address) pair live twice anywhere in the table. *)
Theorem c08_live_shape : forall (now : Z) (t : table), TInv t ->
  (1 <= length (buckets t) <= 160)%nat /\
  (forall b, In b (buckets t) -> length b = 8%nat) /\
  (forall i b n, nth_error (buckets t) i = Some b -> In n b -> live now n ->
     nd_id n <> local_id t /\ ~ In (nd_addr n) (routers t) /\
     (if Nat.ltb i (length (buckets t) - 1) then lcp (local_id t) (nd_id n) = i
      else (length (buckets t) - 1 <= lcp (local_id t) (nd_id n))%nat)) /\
  (forall i1 k1 i2 k2 b1 b2 n1 n2,
     nth_error (buckets t) i1 = Some b1 -> nth_error b1 k1 = Some n1 ->
     nth_error (buckets t) i2 = Some b2 -> nth_error b2 k2 = Some n2 ->
     live now n1 -> live now n2 -> nd_id n1 = nd_id n2 -> nd_addr n1 = nd_addr n2 ->
     i1 = i2 /\ k1 = k2).
Proof. exact inv_shape. Qed.

(* Offering a node to a bucket touches at most one slot ... *)
Theorem c08_bucket_one_slot : forall now b new,
  snd (bucket_add now b new) = b \/
  exists i x, snd (bucket_add now b new) = set_nth i x b /\ (i < length b)%nat.
Proof. intros. eapply badd_one_slot, bucket_add_spec. Qed.

(* ... and a live node in slot k either stays (same id and address; its data updated if it is the
   offered node itself), or it is replaced by the newcomer -- and then the bucket had no bad or
   empty slot and the node was strictly worse than the newcomer. *)
Theorem c08_never_evicts_equal_or_better : forall now b new k old,
  nth_error b k = Some old -> node_status now old <> Bad ->
  (exists x, nth_error (snd (bucket_add now b new)) k = Some x /\ nd_id x = nd_id old /\ nd_addr x = nd_addr old)
  \/ ((forall x, In x b -> node_status now x <> Bad) /\
      status_ltb (node_status now old) (node_status now new) = true /\
      nth_error (snd (bucket_add now b new)) k = Some new).
Proof. intros. eapply badd_evicts_only_worse; [apply bucket_add_spec | eassumption | assumption]. Qed.

(* a full bucket of good nodes rejects a newcomer and is left unchanged *)
Theorem c08_full_good_rejects : forall now b new,
  node_status now new <> Bad -> (forall x, In x b -> same_handle new x = false) ->
  (forall x, In x b -> node_status now x = Good) ->
  bucket_add now b new = (false, b).
Proof. exact badd_full_good_rejects. Qed.

(* room (an empty or bad slot) or a strictly worse node: the newcomer is accepted *)
Theorem c08_accepts_when_room : forall now b new,
  node_status now new <> Bad -> (forall x, In x b -> same_handle new x = false) ->
  (exists x, In x b /\ status_ltb (node_status now x) (node_status now new) = true) ->
  fst (bucket_add now b new) = true /\ In new (snd (bucket_add now b new)).
Proof. exact badd_accepts. Qed.

(* a repeated offer updates the contact in place and never lowers its standing *)
Theorem c08_repeat_never_lowers : forall now self id a (good : bool),
  (status_rank (node_status now self)
   <= status_rank (node_status now (node_update now self (if good then as_good id a now else as_questionable id a now))))%nat.
Proof. exact node_update_offer_status. Qed.

Print Assumptions c08_inv_all_histories.
Print Assumptions c08_live_shape.
Print Assumptions c08_bucket_one_slot.
Print Assumptions c08_never_evicts_equal_or_better.
Print Assumptions c08_full_good_rejects.
Print Assumptions c08_accepts_when_room.
Print Assumptions c08_repeat_never_lowers.

(* The pinned (pre-fix) Bucket::add_node violates the property: a questionable node A in slot 0,
   seven empty slots behind it, a good newcomer B -- and A is gone. *)
Example c08_pinned_refuted :
  let a := mkAddr false 167772161%N 1%N in let b := mkAddr false 167772162%N 2%N in
  let bk := snd (bucket_add_pinned 0 new_bucket (as_questionable 5%N a 0)) in
  let bk' := snd (bucket_add_pinned 0 bk (as_good 6%N b 0)) in
  existsb (same_handle (as_questionable 5%N a 0)) bk = true /\
  existsb (same_handle (as_questionable 5%N a 0)) bk' = false /\
  (* ... while the repaired function keeps both *)
  let ck := snd (bucket_add 0 new_bucket (as_questionable 5%N a 0)) in
  let ck' := snd (bucket_add 0 ck (as_good 6%N b 0)) in
  existsb (same_handle (as_questionable 5%N a 0)) ck' = true /\ existsb (same_handle (as_good 6%N b 0)) ck' = true.
Proof. vm_compute. repeat split. Qed.

(* non-vacuity: a history with a split, a router, the local id and a repeat satisfies op_ok *)
Example c08_nonvacuous :
  let a (k : N) := mkAddr false (167772160 + k)%N 6881 in
  let ops := [OOffer 0 true 1%N (a 1%N); OOffer 0 false 2%N (a 2%N); OOffer 0 true 3%N (a 3%N); OOffer 0 true 4%N (a 4%N);
              OOffer 0 true 5%N (a 5%N); OOffer 0 true 6%N (a 6%N); OOffer 0 true 7%N (a 7%N); OOffer 0 true 8%N (a 8%N);
              OOffer 1 true (2 ^ 159)%N (a 9%N); OOffer 1 true 0%N (a 10%N); OOffer 2 true 1%N (a 1%N);
              OLocalRequest 3 2%N (a 2%N); OResponse 4 9%N (a 11%N) [(10%N, a 12%N); (0%N, a 13%N)]] in
  Forall op_ok ops /\ (length (buckets (fold_left tstep ops (init_table 0%N [a 10%N]))) = 158)%nat.
Proof.
  split; [|vm_compute; reflexivity].
  repeat (apply Forall_cons; [cbn [op_ok]; first [exact I | discriminate | (split; [discriminate | intros h [<-|[<-|[]]]; discriminate])]|]).
  apply Forall_nil.
Qed.

(* ------------------------------------------------------------------------------------------
   The executable checker c08_ok (run/Run_TableCheck.v), which is what is evaluated on the
   dumps of the REAL routing table, versus the model the theorems above are about. *)
From BT Require Import run.Run_Table run.Run_TableCheck proofs.Checker_Table_Facts.

(* completeness on the model: on the model's own observations the checker never raises an alarm
   -- neither the shape clause of any dump nor any of the nine transition clauses of a
   Dump ; Offer ; Dump  triple, through every chain of bucket splits -- for every local id and every
   script in which the router addresses come first and no offered or named address is the
   placeholder 127.0.0.1:0 of empty slots (what the generators emit) *)
Theorem c08_checker_accepts_model : forall (local : N) (ops : list rtop),
  routers_first ops && forallb rtop_okb ops = true ->
  c08_ok local ops (model_obs local ops) = None.
Proof. exact c08_ok_model_silent. Qed.

(* soundness: whenever the checker accepts a trace, there is an observation for every operation;
   every observed dump has between 1 and 160 buckets of 8 slots, lists no (id, address) live
   twice, and every live slot is not the local id, not a router address (routers_before: the
   addresses announced so far) and sits in the bucket of its shared-prefix length (the last bucket
   takes all longer prefixes) ... *)
Theorem c08_checker_sound_shape : forall (local : N) (ops : list rtop) (obs : list rtobs),
  c08_ok local ops obs = None ->
  (length ops <= length obs)%nat /\
  forall k t d, nth_error ops k = Some (TDump t) -> nth_error obs k = Some (ObDump d) ->
    (1 <= length d <= 160)%nat
    /\ (forall b, In b d -> length b = 8%nat)
    /\ NoDup (map hd_s (live_of d))
    /\ (forall i b s, nth_error d i = Some b -> In s b -> is_live s = true ->
          id_of s <> local
          /\ ~ In (addr_of s) (routers_before ops k)
          /\ ((i < length d - 1)%nat -> lcp local (id_of s) = i)
          /\ ((length d - 1 <= i)%nat -> (length d - 1 <= lcp local (id_of s))%nat)).
Proof. exact c08_ok_sound_shape. Qed.

(* ... and every  Dump ; Offer(good, id, a) ; Dump  triple taken at one instant (d before, d' after)
   obeys the nine transition clauses *)
Theorem c08_checker_sound_offer : forall (local : N) (ops : list rtop) (obs : list rtobs),
  c08_ok local ops obs = None ->
  forall k t good id a d d',
    nth_error ops k = Some (TDump t) -> nth_error ops (S k) = Some (TOffer t good id a) ->
    nth_error ops (S (S k)) = Some (TDump t) ->
    nth_error obs k = Some (ObDump d) -> nth_error obs (S (S k)) = Some (ObDump d') ->
    let routers := routers_before ops k in
    let ns : N := if good then 2%N else 1%N in
    let B := live_of d in
    let A := live_of d' in
    let lost := filter (fun s => negb (existsb (same_h s) A)) B in
    let len := length d in
    let idx := if Nat.ltb (lcp local id) len then lcp local id else (len - 1)%nat in
    let tb := nth idx d [] in
    (* 1: at most one node is lost *)
    (length lost <= 1)%nat
    (* 2: a lost node is strictly worse than the newcomer *)
    /\ (forall s, In s B -> ~ In (hd_s s) (map hd_s A) -> (st_of s < ns)%N)
    (* 3: the bucket of a lost node had no free / bad slot *)
    /\ (forall s, In s B -> ~ In (hd_s s) (map hd_s A) ->
          forall b, In b d -> In (hd_s s) (map hd_s (filter is_live b)) ->
          forall s', In s' b -> is_live s' = true)
    (* 4: nobody else changes standing *)
    /\ (forall s, In s B -> hd_s s <> (id, a) ->
          (forall s', List.find (same_h s) A = Some s' -> st_of s' = st_of s)
          /\ (List.find (same_h s) A = None -> ~ In (hd_s s) (map hd_s A)))
    (* 5: nobody but the offered handle appears *)
    /\ (forall s, In s A -> hd_s s <> (id, a) -> In (hd_s s) (map hd_s B))
    (* 6: an inadmissible offer (own id, router address) changes nothing *)
    /\ (id = local \/ In a routers -> d = d')
    (* 7: a repeated offer loses nobody and never lowers the standing *)
    /\ (In (id, a) (map hd_s B) ->
          length lost = 0%nat
          /\ exists s s', List.find (same_h (ns, id, a)) B = Some s
                          /\ List.find (same_h (ns, id, a)) A = Some s'
                          /\ (st_of s <= st_of s')%N)
    (* 8: a full bucket of good nodes that cannot be split rejects a newcomer *)
    /\ (id <> local -> ~ In a routers -> ~ In (id, a) (map hd_s B) ->
          (forall s, In s tb -> st_of s = 2%N) -> can_split len idx = false -> d = d')
    (* 9: room or a worse node in the target bucket: the newcomer is accepted, with its standing *)
    /\ (id <> local -> ~ In a routers -> ~ In (id, a) (map hd_s B) ->
          (exists s, In s tb /\ (st_of s < ns)%N) ->
          exists s, In s A /\ hd_s s = (id, a) /\ st_of s = ns).
Proof. exact c08_ok_sound_offer. Qed.

Print Assumptions c08_checker_accepts_model.
Print Assumptions c08_checker_sound_shape.
Print Assumptions c08_checker_sound_offer.
