(* C15 -- bootstrap completes when it can, tells every waiter, never kills the node.
   Property theorems only.  Proved: the registry assertion cannot fail in the first round of the
   repaired bootstrap; the waiter bookkeeping of the handler; the back-off bounds.  The attempt loop
   itself (timing of completion after outages) is decided on simulated runs -- see the level note. *)
From BT Require Import model.Prelude model.Compact model.Krpc model.Token model.Storage model.Table model.Txn model.Handler model.Bootstrap.
From BT Require Import proofs.Handler_Facts proofs.Bootstrap_Facts.
Open Scope Z_scope.

(* the first round registers (address, shared id) for each contact; with the contact list built as the
   union of routers and starting nodes and an id not yet registered, the assertion never fails --
   for every router set and every node set, overlapping or not *)
Theorem c15_first_round_no_panic : forall routers nodes tid reg,
  NoDup routers -> NoDup nodes -> (forall a, ~ In (a, tid) reg) ->
  exists reg', register_all reg tid (union_contacts routers nodes) = Some reg'.
Proof. exact first_round_no_panic. Qed.

(* a caller of bootstrapped() while bootstrapped is told at once, otherwise it is registered ... *)
Theorem c15_waiter_registered_or_told : forall I sendok cf sr qe now s,
  let '(s', out) := step I sendok cf sr qe now s EvCheckBootstrap in
  ns_next_waiter s' = S (ns_next_waiter s) /\
  (if match ns_boot s with BBootstrapped => true | _ => false end
   then out = [ONotify (ns_next_waiter s)] /\ ns_waiters s' = ns_waiters s
   else out = [] /\ ns_waiters s' = ns_waiters s ++ [ns_next_waiter s]).
Proof. exact waiter_registered_or_told. Qed.

(* ... and on the transition to Bootstrapped every registered waiter is notified *)
Theorem c15_all_waiters_told : forall I sendok cf sr qe now s w,
  In w (ns_waiters s) -> In (ONotify w) (snd (step I sendok cf sr qe now s (EvBootState BBootstrapped))).
Proof. exact all_waiters_told. Qed.

(* the sleep between failed attempts is between 2 s and 512 s *)
Theorem c15_backoff_bounds : forall n, 2000000000 <= retry_duration n <= 512000000000.
Proof. exact retry_duration_bounds. Qed.

Print Assumptions c15_first_round_no_panic.
Print Assumptions c15_waiter_registered_or_told.
Print Assumptions c15_all_waiters_told.
Print Assumptions c15_backoff_bounds.

(* the pinned contact list (routers, then nodes) trips the assertion as soon as one address is in
   both sets -- the genuine defect repaired in /repo *)
Example c15_pinned_refuted :
  let a := mkAddr false 167772162 7001 in
  register_all [] [1;2;3;4;5;6;7;8]%N (pinned_contacts [a] [a]) = None /\
  register_all [] [1;2;3;4;5;6;7;8]%N (union_contacts [a] [a]) = Some [(a, [1;2;3;4;5;6;7;8]%N)].
Proof. vm_compute. split; reflexivity. Qed.
