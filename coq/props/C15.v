(* C15 -- bootstrap completes when it can, tells every waiter, never kills the node.
   Property theorems only.  Proved: the registry assertion cannot fail in the first round of the
   repaired bootstrap; the waiter bookkeeping of the handler; the back-off bounds.  The attempt loop
   itself (timing of completion after outages) is decided on simulated runs -- see the level note. *)
From BT Require Import model.Prelude model.Compact model.Krpc model.Token model.Storage model.Table model.Txn model.Handler model.Bootstrap.
From BT Require Import proofs.Handler_Facts proofs.Bootstrap_Facts.
Open Scope Z_scope.

(* the first round registers (address, shared id) for each contact; with the contact list built as the
   union of routers and starting nodes and an id not yet registered, the assertion never fails --
   for every router set and every node set, overlapping or not *)
Theorem c15_first_round_no_panic : forall routers nodes tid reg,
  NoDup routers -> NoDup nodes -> (forall a, ~ In (a, tid) reg) ->
  exists reg', register_all reg tid (union_contacts routers nodes) = Some reg'.
Proof. exact first_round_no_panic. Qed.

(* a caller of bootstrapped() while bootstrapped is told at once, otherwise it is registered ... *)
Theorem c15_waiter_registered_or_told : forall I sendok cf sr qe now s,
  let '(s', out) := step I sendok cf sr qe now s EvCheckBootstrap in
  ns_next_waiter s' = S (ns_next_waiter s) /\
  (if match ns_boot s with BBootstrapped => true | _ => false end
   then out = [ONotify (ns_next_waiter s)] /\ ns_waiters s' = ns_waiters s
   else out = [] /\ ns_waiters s' = ns_waiters s ++ [ns_next_waiter s]).
Proof. exact waiter_registered_or_told. Qed.

(* ... and on the transition to Bootstrapped every registered waiter is notified *)
Theorem c15_all_waiters_told : forall I sendok cf sr qe now s w,
  In w (ns_waiters s) -> In (ONotify w) (snd (step I sendok cf sr qe now s (EvBootState BBootstrapped))).
Proof. exact all_waiters_told. Qed.

(* the sleep between failed attempts is between 2 s and 512 s *)
Theorem c15_backoff_bounds : forall n, 2000000000 <= retry_duration n <= 512000000000.
Proof. exact retry_duration_bounds. Qed.

Print Assumptions c15_first_round_no_panic.
Print Assumptions c15_waiter_registered_or_told.
Print Assumptions c15_all_waiters_told.
Print Assumptions c15_backoff_bounds.

(* the pinned contact list (routers, then nodes) trips the assertion as soon as one address is in
   both sets -- the genuine defect repaired in /repo *)
Example c15_pinned_refuted :
  let a := mkAddr false 167772162 7001 in
  register_all [] [1;2;3;4;5;6;7;8]%N (pinned_contacts [a] [a]) = None /\
  register_all [] [1;2;3;4;5;6;7;8]%N (union_contacts [a] [a]) = Some [(a, [1;2;3;4;5;6;7;8]%N)].
Proof. vm_compute. split; reflexivity. Qed.

(* ---- the socket layer between the bootstrap exchanges and the handler (model/Socket.v, replayed against the real socket) ---- *)
From BT Require Import model.Socket proofs.Socket_Facts.

(* a received datagram is handed to a pending exchange exactly when it decodes and its (source address, transaction id) is
   pending; the key is consumed by that delivery *)
Theorem c15_socket_deliver_iff_pending : forall p src data k,
  snd (sstep_sock p (SRecv src data)) = SRToWaiter k <->
  exists m, decode_msg data = Some m /\ k = (src, m_tid m) /\ In k p.
Proof. exact deliver_iff_pending. Qed.

(* ... so a second copy of the same datagram goes to the handler (where it is an unsolicited message), never to the
   exchange again: the `assert!(self.message.is_none())` of make_ready cannot fail *)
Theorem c15_socket_duplicate_goes_to_handler : forall p src data k,
  snd (sstep_sock p (SRecv src data)) = SRToWaiter k ->
  snd (sstep_sock (fst (sstep_sock p (SRecv src data))) (SRecv src data)) = SRToHandler.
Proof. exact duplicate_goes_to_handler. Qed.

(* nothing decodable is swallowed *)
Theorem c15_socket_decodable_not_lost : forall p src data m,
  decode_msg data = Some m ->
  snd (sstep_sock p (SRecv src data)) = SRToHandler \/ snd (sstep_sock p (SRecv src data)) = SRToWaiter (src, m_tid m).
Proof. exact decodable_not_lost. Qed.

(* the assertion of `responded` fails exactly when the key is still pending; a run whose registrations are fresh (no
   (destination, transaction id) pair registered while pending -- C19's discipline, C15's first-round theorem) never panics *)
Theorem c15_socket_panic_iff_double_register : forall p k, snd (sstep_sock p (SReg k)) = SRPanic <-> In k p.
Proof. exact panic_iff_double_register. Qed.

Theorem c15_socket_no_panic_when_fresh : forall evs p, fresh_regs p evs -> ~ In SRPanic (snd (srun_sock p evs)).
Proof. exact no_panic_when_fresh. Qed.

Print Assumptions c15_socket_deliver_iff_pending.
Print Assumptions c15_socket_duplicate_goes_to_handler.
Print Assumptions c15_socket_decodable_not_lost.
Print Assumptions c15_socket_panic_iff_double_register.
Print Assumptions c15_socket_no_panic_when_fresh.

Example c15_socket_nonvacuous :
  let a := mkAddr false 167772161 6881 in
  let ping := hex "64313a7264323a696432303a303132333435363738396162636465666768696a65313a74323a6161313a79313a7265" in
  snd (srun_sock [] [SReg (a, [97; 97]%N); SRecv a ping; SRecv a ping; SReg (a, [97; 97]%N); SReg (a, [97; 97]%N)])
  = [SRNone; SRToWaiter (a, [97; 97]%N); SRToHandler; SRNone; SRPanic].
Proof. vm_compute. reflexivity. Qed.
