(* C14 (decoder part) -- no datagram can make the decoder request memory out of proportion
   to the input or recurse beyond a fixed depth.  Property theorems only; the instrumented
   decoder is model/{Bencode,Krpc}.v ([decode_instr]: allocation log, maximal nesting of
   visit_seq/visit_map calls, result), the lemmas are in proofs/Krpc_Safety.v.

   The model logs what the library REQUESTS ([vec![0u8; len]] in parse_bytes, logged before the
   read that may fail) and how deep it RECURSES; that the real allocator and a 2 MiB stack
   survive such requests is observed by the harness (supervised child process), not proved. *)
From BT Require Import model.Prelude model.Krpc proofs.Krpc_Safety.

(* For EVERY byte string b -- any length, any content -- every allocation size the library
   requests while Message::decode processes b is at most the length of b (so at most 1500 in
   the node, whose receive buffer has 1500 bytes). *)
Theorem c14_alloc_bounded : forall (b : bytes) (a : N),
  In a (o_allocs (decode_instr b)) -> a <= N.of_nat (length b).
Proof. exact decode_allocs_bounded. Qed.

(* ... and all requests together do not exceed the length of b either: every request is for the
   content of a byte string that is really there, and the strings of a datagram do not overlap. *)
Theorem c14_alloc_sum_bounded : forall b : bytes,
  list_sum (o_allocs (decode_instr b)) <= N.of_nat (length b).
Proof. exact decode_alloc_sum_bounded. Qed.

(* For EVERY byte string b the library never has more than MAX_DEPTH + 2 = 34 nested
   visit_seq / visit_map calls open.  Why +2: precheck bounds the nesting of the INPUT by
   MAX_DEPTH; the generic value reader (unknown keys, buffered query arguments) is entered with at
   most 2 containers open (RawMessage, Response) and from there follows the input's nesting; the
   structured part of the decoder opens at most 4 levels by itself.  (The library's own count can
   run ahead of the input's by one only while a Response given as a list reads its defaulted
   fields, which are flat; the bound actually reached is 32, see c14_depth_reached.) *)
Theorem c14_depth_bounded : forall b : bytes,
  (o_depth (decode_instr b) <= 32 + 2)%nat.
Proof. exact decode_depth_bounded. Qed.

Print Assumptions c14_alloc_bounded.
Print Assumptions c14_alloc_sum_bounded.
Print Assumptions c14_depth_bounded.

(* ---- earlier trees, kept as named variants with their refutation witnesses ---- *)
Definition w_pinned_alloc : bytes := bs "d1:t99999999999:".
Definition w_pinned_depth : bytes := bs "d1:x" ++ repeat ch_l 1480.
Definition w_onepass_alloc : bytes := bs "d1:rl20:AAAAAAAAAAAAAAAAAAAAee99999999999:".
Definition w_onepass_depth : bytes :=
  bs "d1:rl20:AAAAAAAAAAAAAAAAAAAAee0:0:1:x" ++ repeat ch_l 700 ++ repeat ch_e 700 ++ bs "1:t2:aa1:y1:re".

(* pinned tree (no precheck): a 16-byte datagram requests a 99 999 999 999-byte allocation,
   a 1484-byte datagram recurses 1481 levels *)
Theorem c14_pinned_refuted :
  length w_pinned_alloc = 16%nat /\ o_allocs (decode_nocheck_instr w_pinned_alloc) = [1; 99999999999] /\
  length w_pinned_depth = 1484%nat /\ o_depth (decode_nocheck_instr w_pinned_depth) = 1481%nat.
Proof. vm_compute. repeat split. Qed.

(* first repair (precheck as a yes/no test, the library then reads the whole input): a Response
   given as a short list makes the library read past the scanned value *)
Theorem c14_onepass_refuted :
  length w_onepass_alloc = 42%nat /\ o_allocs (decode_onepass_instr w_onepass_alloc) = [1; 20; 99999999999] /\
  o_depth (decode_onepass_instr w_onepass_depth) = 701%nat /\ decode_onepass w_onepass_depth <> None.
Proof. vm_compute. repeat split. discriminate. Qed.

(* the same inputs on the decoder as it is now *)
Example c14_witnesses_now_rejected :
  decode_instr w_pinned_alloc = no_run /\ decode_instr w_pinned_depth = no_run /\
  o_allocs (decode_instr w_onepass_alloc) = [1; 20] /\ decode_msg w_onepass_alloc = None /\
  o_depth (decode_instr w_onepass_depth) = 2%nat /\ decode_msg w_onepass_depth = None.
Proof. vm_compute. repeat split. Qed.

(* non-vacuity: the bounds are reached -- a datagram whose token takes almost all of it, and
   one nested exactly 32 deep, both accepted *)
Definition ex_big_token : bytes :=
  bs "d1:rd2:id20:AAAAAAAAAAAAAAAAAAAA5:token1400:" ++ repeat 120 1400 ++ bs "e1:t2:aa1:y1:re".
Definition ex_deep : bytes :=
  bs "d1:rd2:id20:AAAAAAAAAAAAAAAAAAAA1:x" ++ repeat ch_l 30 ++ repeat ch_e 30 ++ bs "e1:t2:aa1:y1:re".

Example c14_alloc_reached :
  length ex_big_token = 1459%nat /\ o_allocs (decode_instr ex_big_token) = [1; 2; 20; 5; 1400; 1; 2; 1; 1] /\
  decode_msg ex_big_token <> None.
Proof. vm_compute. repeat split; discriminate. Qed.

Example c14_depth_reached :
  o_depth (decode_instr ex_deep) = 32%nat /\ decode_msg ex_deep <> None /\
  decode_msg (bs "d1:rd2:id20:AAAAAAAAAAAAAAAAAAAA1:x" ++ repeat ch_l 31 ++ repeat ch_e 31 ++ bs "e1:t2:aa1:y1:re") = None.
Proof. vm_compute. repeat split; discriminate. Qed.
