(* C12 -- the routing table cannot be filled by parties the node did not ask.
   Property theorems only. *)
From BT Require Import model.Prelude model.Compact model.Krpc model.Token model.Storage model.Table model.Txn model.Handler.
From BT Require Import proofs.Table_Facts proofs.TableInv_Facts proofs.TableOps_Facts proofs.Handler_Facts.
Open Scope Z_scope.

(* receiving a query never adds its sender (or anybody) to the contacts: the set of
   (id, address) pairs in the table is unchanged -- at most the last-request time of an already
   known, pingable contact is refreshed *)
Theorem c12_query_adds_nobody : forall now cf t tk st src tid q,
  table_handles (fst (fst (fst (handle_query now cf t tk st src tid q)))) = table_handles t.
Proof. exact query_adds_nobody. Qed.

(* a response whose transaction id is not 8 bytes, or whose 5-byte action prefix is neither that
   of a live search nor that of the refresh, leaves the whole node state (contacts, searches,
   timers) unchanged and produces nothing.  (Answers to bootstrap exchanges are matched on
   (source address, id) by the socket layer and never reach the handler.) *)
Theorem c12_unsolicited_noop : forall I sendok cf sr qe now s src tid r,
  (tid_action tid = None \/
   exists a, tid_action tid = Some a /\ lookup_by_action I s a = None /\ aid_of I 0 <> a) ->
  step I sendok cf sr qe now s (EvMsg src (mkMsg tid (Resp r))) = (s, []).
Proof. exact unsolicited_noop. Qed.

Theorem c12_wrong_length_id : forall tid, length tid <> 8%nat -> tid_action tid = None.
Proof. exact tid_action_len. Qed.

(* nodes merely named in a response are offered as questionable; such an offer can make a contact
   good only if it already was good (it answered or queried by itself), and a contact known only by
   hearsay is reported questionable *)
Theorem c12_named_offer_is_questionable : forall id a now now', now <= now' ->
  node_status now' (as_questionable id a now) = Questionable.
Proof. intros. apply as_questionable_status. assumption. Qed.

Theorem c12_hearsay_never_promotes : forall now self id a,
  node_status now (node_update now self (as_questionable id a now)) = Good -> node_status now self = Good.
Proof.
  intros now self id a H. unfold node_update in H. rewrite (as_questionable_status id a now now) in H by lia.
  destruct (node_status now self) eqn:E; try reflexivity; rewrite ?E in H; try discriminate.
  rewrite (as_questionable_status id a now now) in H by lia. discriminate.
Qed.

(* after every handler event the node's table satisfies the C08 invariant (no own id, no router
   address, placement, no duplicates) -- whoever names whatever *)
Theorem c12_table_invariant_every_event : forall I sendok cf sr qe now s e,
  ev_ok e -> TInv (ns_table s) ->
  TInv (ns_table (fst (step I sendok cf sr qe now s e))) /\
  same_meta (ns_table s) (ns_table (fst (step I sendok cf sr qe now s e))).
Proof. intros. apply (step_table_inv I sendok cf sr qe now s e); assumption. Qed.

Print Assumptions c12_query_adds_nobody.
Print Assumptions c12_unsolicited_noop.
Print Assumptions c12_wrong_length_id.
Print Assumptions c12_named_offer_is_questionable.
Print Assumptions c12_hearsay_never_promotes.
Print Assumptions c12_table_invariant_every_event.

Example c12_nonvacuous :
  let I := mkIds (fun k => N.of_nat k + 100)%N (fun k n => N.of_nat n) in
  let cf := mkCfg 5 false false None in
  let s0 := ns_init 5 0 in
  let src := mkAddr false 167772162 7001 in
  let forged := mkMsg (tid_bytes 999 3) (Resp (mkResp 9%N [] [mkNodeh 10%N (mkAddr false 167772163 1)] [] None)) in
  tid_action (m_tid forged) = Some 999%N /\
  step I (fun _ => true) cf true true 7 s0 (EvMsg src forged) = (s0, []) /\ ev_ok (EvMsg src forged) /\ TInv (ns_table s0).
Proof.
  split; [vm_compute; reflexivity|]. split; [vm_compute; reflexivity|]. split.
  - cbn. split; [discriminate|]. intros n [<-|[]]. discriminate.
  - apply TInv_new.
Qed.
