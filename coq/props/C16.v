(* C16 -- a search requested before bootstrap finishes is carried out, not dropped.
   Property theorems only. *)
From BT Require Import model.Prelude model.Compact model.Krpc model.Token model.Storage model.Table model.Txn model.Handler.
From BT Require Import proofs.Handler_Facts.
Open Scope Z_scope.

(* before the first bootstrap conclusion a search request produces nothing and joins the queue *)
Theorem c16_early_search_queued : forall I sendok cf sr now s ih an,
  ns_concluded s = false ->
  step I sendok cf sr true now s (EvStartLookup ih an) = (set_queue s (ns_queued s ++ [(ih, an)]) false, []).
Proof. exact early_search_queued. Qed.

(* at the first conclusion (Bootstrapped, or IdleBeforeRebootstrap: so the search is not starved
   when the first attempt fails) the queued searches are started in request order, each exactly as
   [start_lookup] -- the code path of a search received at that very moment -- starts it *)
Theorem c16_conclusion_releases_queue : forall I sendok cf sr now s b,
  ns_concluded s = false -> (b = BBootstrapped \/ b = BIdle) ->
  exists s2 out,
    (s2, out) = (match b with
                 | BBootstrapped =>
                     let '(s1, o) := continue_refresh I sendok cf sr now (set_waiters (set_boot s b) [] (ns_next_waiter s)) in
                     (s1, map ONotify (ns_waiters s) ++ o)
                 | _ => (set_boot s b, [])
                 end) /\
    ns_queued s2 = ns_queued s /\
    step I sendok cf sr true now s (EvBootState b) =
      (fst (start_queued I sendok cf now (set_queue s2 [] true) (ns_queued s)),
       out ++ snd (start_queued I sendok cf now (set_queue s2 [] true) (ns_queued s))).
Proof. exact conclusion_releases_queue. Qed.

Print Assumptions c16_early_search_queued.
Print Assumptions c16_conclusion_releases_queue.

(* the pinned handler (no queue) starts the search on the empty table: it ends at once, having
   queried nobody -- the genuine defect repaired in /repo *)
Example c16_pinned_refuted :
  let I := mkIds (fun k => N.of_nat k + 100)%N (fun k n => N.of_nat n) in
  let cf := mkCfg 5 false false None in
  snd (step I (fun _ => true) cf true false 0 (ns_init 5 0) (EvStartLookup 77%N true)) = [OStreamEnd 2] /\
  snd (step I (fun _ => true) cf true true 0 (ns_init 5 0) (EvStartLookup 77%N true)) = [].
Proof. vm_compute. split; reflexivity. Qed.

(* non-vacuity: an early search is released at the conclusion and then queries the contact that
   bootstrap found *)
Example c16_nonvacuous :
  let I := mkIds (fun k => N.of_nat k + 100)%N (fun k n => N.of_nat n) in
  let cf := mkCfg 5 false false None in
  let nd := mkAddr false 167772162 7001 in
  let s1 := fst (step I (fun _ => true) cf true true 0 (ns_init 5 0) (EvStartLookup 77%N false)) in
  let s2 := fst (step I (fun _ => true) cf true true 1 s1 (EvBootTable (2 ^ 159)%N nd [])) in
  let out := snd (step I (fun _ => true) cf true true 2 s2 (EvBootState BBootstrapped)) in
  ns_queued s1 = [(77%N, false)] /\
  existsb (fun o => match o with OSend d (mkMsg _ (Req (GetPeers _ 77%N _))) => addr_eqb d nd | _ => false end) out = true.
Proof. vm_compute. split; reflexivity. Qed.
