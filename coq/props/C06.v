(* C06 -- announce tokens: bound to the requester IP, valid >= 10 min, dead by
   30 min.  Property theorems only (token store part; the handler part -- which
   IP is passed, storing gated on the check -- is in the handler model).
   A history is  pre ++ issue :: mid ++ presentation :: post  with arbitrary
   pre/mid/post (any interleaving of checkouts and checkins from any IPs, v4 and
   v6) and non-decreasing time stamps. *)
From BT Require Import model.Prelude model.Token proofs.Token_Facts.
Open Scope Z_scope.

(* accepted from the same IP up to (and including) 10 minutes after issue,
   whatever happened in between *)
Theorem c06_valid_10min : forall t0 pre mid post ti tj ip k,
  let ops := pre ++ (ti, TCheckout ip) :: mid ++ (tj, TCheckin ip k) :: post in
  ttimes_from t0 ops ->
  out_at t0 ops (length pre) = OTok k ->
  tj <= ti + 600000000000 ->
  out_at t0 ops (length pre + S (length mid)) = OAcc true.
Proof. exact token_valid_10min. Qed.

(* never accepted (from any IP) once 30 minutes have passed *)
Theorem c06_dead_30min : forall t0 pre mid post ti tj ip ip' k,
  let ops := pre ++ (ti, TCheckout ip) :: mid ++ (tj, TCheckin ip' k) :: post in
  ttimes_from t0 ops ->
  out_at t0 ops (length pre) = OTok k ->
  ti + 1800000000000 <= tj ->
  out_at t0 ops (length pre + S (length mid)) = OAcc false.
Proof. exact token_dead_30min. Qed.

(* never accepted from a different IP (no time hypothesis at all) *)
Theorem c06_ip_bound : forall t0 pre mid post ti tj ip ip' k,
  let ops := pre ++ (ti, TCheckout ip) :: mid ++ (tj, TCheckin ip' k) :: post in
  out_at t0 ops (length pre) = OTok k ->
  ip' <> ip ->
  out_at t0 ops (length pre + S (length mid)) = OAcc false.
Proof. exact token_ip_bound. Qed.

(* byte strings that are not a digest of (ip, secret of this run) are refused at any time *)
Theorem c06_unissued_refused : forall t0 pre post tj ip b,
  let ops := pre ++ (tj, TCheckin ip (TRaw b)) :: post in
  out_at t0 ops (length pre) = OAcc false.
Proof. exact token_raw_refused. Qed.

Print Assumptions c06_valid_10min.
Print Assumptions c06_dead_30min.
Print Assumptions c06_ip_bound.
Print Assumptions c06_unissued_refused.

(* non-vacuity: issue at 9 min 59 s after start (one rotation happens in between),
   present at exactly +10 min (accepted), at +30 min (refused), from another IP (refused) *)
Example c06_nonvacuous :
  let ip := (false, 167772161%N) in let ip2 := (true, 1%N) in
  let k := TSha ip 0 in
  let ops := [(599000000000, TCheckout ip); (600000000000, TCheckout ip2);
              (1199000000000, TCheckin ip k); (1199000000000, TCheckin ip2 k);
              (2399000000000, TCheckin ip k)] in
  ttimes_from 0 ops /\
  snd (trun (tinit 0) ops) = [OTok k; OTok (TSha ip2 2); OAcc true; OAcc false; OAcc false].
Proof. vm_compute. repeat split; discriminate. Qed.
