(* C06 -- announce tokens: bound to the requester IP, valid >= 10 min, dead by
   30 min.  Property theorems only (token store part; the handler part -- which
   IP is passed, storing gated on the check -- is in the handler model).
   A history is  pre ++ issue :: mid ++ presentation :: post  with arbitrary
   pre/mid/post (any interleaving of checkouts and checkins from any IPs, v4 and
   v6) and non-decreasing time stamps. *)
From BT Require Import model.Prelude model.Token proofs.Token_Facts.
Open Scope Z_scope.

(* accepted from the same IP up to (and including) 10 minutes after issue,
   whatever happened in between *)
Theorem c06_valid_10min : forall t0 pre mid post ti tj ip k,
  let ops := pre ++ (ti, TCheckout ip) :: mid ++ (tj, TCheckin ip k) :: post in
  ttimes_from t0 ops ->
  out_at t0 ops (length pre) = OTok k ->
  tj <= ti + 600000000000 ->
  out_at t0 ops (length pre + S (length mid)) = OAcc true.
Proof. exact token_valid_10min. Qed.

(* never accepted (from any IP) once 30 minutes have passed *)
Theorem c06_dead_30min : forall t0 pre mid post ti tj ip ip' k,
  let ops := pre ++ (ti, TCheckout ip) :: mid ++ (tj, TCheckin ip' k) :: post in
  ttimes_from t0 ops ->
  out_at t0 ops (length pre) = OTok k ->
  ti + 1800000000000 <= tj ->
  out_at t0 ops (length pre + S (length mid)) = OAcc false.
Proof. exact token_dead_30min. Qed.

(* never accepted from a different IP (no time hypothesis at all) *)
Theorem c06_ip_bound : forall t0 pre mid post ti tj ip ip' k,
  let ops := pre ++ (ti, TCheckout ip) :: mid ++ (tj, TCheckin ip' k) :: post in
  out_at t0 ops (length pre) = OTok k ->
  ip' <> ip ->
  out_at t0 ops (length pre + S (length mid)) = OAcc false.
Proof. exact token_ip_bound. Qed.

(* byte strings that are not a digest of (ip, secret of this run) are refused at any time *)
Theorem c06_unissued_refused : forall t0 pre post tj ip b,
  let ops := pre ++ (tj, TCheckin ip (TRaw b)) :: post in
  out_at t0 ops (length pre) = OAcc false.
Proof. exact token_raw_refused. Qed.

Print Assumptions c06_valid_10min.
Print Assumptions c06_dead_30min.
Print Assumptions c06_ip_bound.
Print Assumptions c06_unissued_refused.

(* non-vacuity: issue at 9 min 59 s after start (one rotation happens in between),
   present at exactly +10 min (accepted), at +30 min (refused), from another IP (refused) *)
Example c06_nonvacuous :
  let ip := (false, 167772161%N) in let ip2 := (true, 1%N) in
  let k := TSha ip 0 in
  let ops := [(599000000000, TCheckout ip); (600000000000, TCheckout ip2);
              (1199000000000, TCheckin ip k); (1199000000000, TCheckin ip2 k);
              (2399000000000, TCheckin ip k)] in
  ttimes_from 0 ops /\
  snd (trun (tinit 0) ops) = [OTok k; OTok (TSha ip2 2); OAcc true; OAcc false; OAcc false].
Proof. vm_compute. repeat split; discriminate. Qed.

(* ------------------------------------------------------------------ the executable checker and the clauses
   [c06_ok] (run/Run_Token.v) is the checker that is evaluated on the flags OBSERVED from the real
   TokenStore (2 = a token was returned, 1 = accepted, 0 = refused).  The implementation's tokens are
   opaque; a script names a token by the index of the checkout that returned it, and the harness
   presents exactly the bytes that checkout returned: operation #j = [RCi ip' n] presents, from ip',
   the token that operation #n returned. *)
From BT Require Import run.Run_Token proofs.Checker_Token_Facts.

(* soundness: if the checker raises no alarm on the observed flags [obs] then the three C06 clauses
   hold of the OBSERVED trace, for every issue/presentation pair of the script: same IP and at most
   10 min after issue -> accepted; 30 min or more after issue -> refused; other IP -> refused.
   Moreover there is one flag per operation, every checkout returned a token, and every presentation
   of unissued bytes / of a token of the wrong length was refused. *)
Theorem c06_checker_sound : forall (ops : list (Z * rop)) (obs : list N),
  c06_ok ops obs = None ->
  length obs = length ops /\
  (forall n j ti tj ip ip' b,
     nth_error ops n = Some (ti, RCo ip) ->
     nth_error ops j = Some (tj, RCi ip' n) ->
     nth_error obs j = Some b ->
     (ip' = ip -> tj <= ti + 600000000000 -> b = 1%N) /\
     (ti + 1800000000000 <= tj -> b = 0%N) /\
     (ip' <> ip -> b = 0%N)) /\
  (forall j t ip b, nth_error ops j = Some (t, RCo ip) -> nth_error obs j = Some b -> b = 2%N) /\
  (forall j t ip b, nth_error ops j = Some (t, RCiRaw ip) \/ nth_error ops j = Some (t, RCiLen ip) ->
     nth_error obs j = Some b -> b = 0%N).
Proof. exact c06_ok_sound. Qed.

(* and conversely: the checker raises no alarm  iff  every observed flag satisfies its clause
   ([c06_obs_ok all o b] is, by definition: b = 2 for a checkout; b = 0 for [RCiRaw]/[RCiLen];
   for o = (tj, RCi ip' n): for every (ti, RCo ip) at index n of [all] the three implications above) *)
Theorem c06_checker_decides_clauses : forall (ops : list (Z * rop)) (obs : list N),
  c06_ok ops obs = None <-> Forall2 (c06_obs_ok ops) ops obs.
Proof. exact c06_ok_iff_spec. Qed.

(* the checker accepts the model's own observations, on every script with non-decreasing time stamps
   whose presentations name earlier checkouts (scripts are generated that way; for a forward reference
   the model presents junk and the checker's 10-minute clause, which only compares the two time stamps,
   would demand acceptance: [c06_forward_ref_alarm]) *)
Theorem c06_checker_accepts_model : forall (t0 : Z) (ops : list (Z * rop)),
  rtimes_from t0 ops ->
  (forall j tj ip' n ti ip,
     nth_error ops j = Some (tj, RCi ip' n) -> nth_error ops n = Some (ti, RCo ip) -> (n < j)%nat) ->
  c06_ok_model t0 ops = None.
Proof. exact c06_ok_model_silent. Qed.

Print Assumptions c06_checker_sound.
Print Assumptions c06_checker_decides_clauses.
Print Assumptions c06_checker_accepts_model.

(* non-vacuity: on the history above (in script form) the checker accepts the model's flags and flags,
   at the right index, a late refusal, an acceptance at 30 min and an acceptance from another IP *)
Example c06_checker_nonvacuous :
  let ops := [CO 599000000000 false 167772161; CO 600000000000 true 1;
              CI 1199000000000 false 167772161 0; CI 1199000000000 true 1 0;
              CI 2399000000000 false 167772161 0] in
  rtimes_from 0 ops /\
  map acc_of (model_obs 0 ops) = [2; 2; 1; 0; 0]%N /\
  c06_ok ops [2; 2; 1; 0; 0]%N = None /\
  c06_ok ops [2; 2; 0; 0; 0]%N = Some 2%N /\
  c06_ok ops [2; 2; 1; 1; 0]%N = Some 3%N /\
  c06_ok ops [2; 2; 1; 0; 1]%N = Some 4%N.
Proof. vm_compute. repeat split; discriminate. Qed.
