(* C11 -- the node keeps refreshing its routing table for arbitrarily long runs: a contact that
   always answers is kept and becomes good again soon after it turns questionable; one that goes
   silent is purged.  Property theorems only (repaired refresh: single_refresh = true). *)
From BT Require Import model.Prelude model.Compact model.Krpc model.Token model.Storage model.Table model.Txn model.Handler.
From BT Require Import proofs.Table_Facts proofs.Handler_Facts proofs.Refresh_Facts.
Open Scope Z_scope.

(* ------------------------------------------------------------------ (1) the refresh chain never dies *)
(* once a bootstrap has completed (at time t, after ANY prefix of events), then after ANY further
   events -- datagrams, timer firings, searches, re-bootstraps, of any number, handled at
   non-decreasing times -- the timer holds exactly one refresh entry, it is the remembered one, and
   it is due at most one refresh interval (6 s) after the time of the last event handled *)
Theorem c11_refresh_alive : forall I sendok cf qe id t0 evs1 t evs2,
  etimes_from t evs2 ->
  let s := fst (run I sendok cf true qe (ns_init id t0) (evs1 ++ (t, EvBootState BBootstrapped) :: evs2)) in
  exists re, refresh_part (ns_timer s) = [re] /\ ns_refresh_pending s = Some (te_key re) /\
             te_deadline re <= elast t evs2 + refresh_interval.
Proof. exact refresh_alive_run. Qed.

(* the invariant behind it, per event: whatever the event and whenever (later) it is handled, the
   single refresh entry stays pending -- it leaves the timer only by firing, and then the round
   schedules its successor -- and it is due within one interval *)
Theorem c11_alive_step : forall I sendok cf qe now now' s e,
  (exists re, refresh_part (ns_timer s) = [re] /\ ns_refresh_pending s = Some (te_key re) /\
              te_deadline re <= now + refresh_interval) ->
  now <= now' -> J s ->
  let s' := fst (step I sendok cf true qe now' s e) in
  exists re, refresh_part (ns_timer s') = [re] /\ ns_refresh_pending s' = Some (te_key re) /\
             te_deadline re <= now' + refresh_interval.
Proof. exact alive_step. Qed.

(* the auxiliary invariant J (timer ids fresh and pairwise distinct; no live search remembers a key
   whose id is that of a refresh entry) holds initially and is kept by every event *)
Theorem c11_aux_init : forall id t0, J (ns_init id t0).
Proof. exact J_init. Qed.

Theorem c11_aux_step : forall I sendok cf qe now s e, J s -> J (fst (step I sendok cf true qe now s e)).
Proof. exact step_J. Qed.

(* every bootstrap completion (re)starts the chain, whatever the state was *)
Theorem c11_boot_starts_chain : forall I sendok cf qe now s, J s -> Inv18p s ->
  let s' := fst (step I sendok cf true qe now s (EvBootState BBootstrapped)) in
  exists re, refresh_part (ns_timer s') = [re] /\ ns_refresh_pending s' = Some (te_key re) /\
             te_deadline re <= now + refresh_interval.
Proof. exact boot_alive. Qed.

(* when the refresh entry fires, a round is run (and it leaves its successor, due 6 s later) *)
Theorem c11_refresh_fires : forall I sendok cf sr qe now s e tm,
  pop_timer (ns_timer s) = Some (e, tm) -> te_task e = TkRefresh ->
  step I sendok cf sr qe now s EvTimer = continue_refresh I sendok cf sr now (set_timer s tm).
Proof. exact refresh_fires. Qed.

Theorem c11_round_reschedules : forall I sendok cf now s, Inv18p s ->
  exists re, refresh_part (ns_timer (fst (continue_refresh I sendok cf true now s))) = [re] /\
             ns_refresh_pending (fst (continue_refresh I sendok cf true now s)) = Some (te_key re) /\
             te_deadline re = now + refresh_interval.
Proof. exact continue_refresh_alive. Qed.

(* ------------------------------------------------------------------ (2) what a round does *)
(* the find_node queries of a round go exactly to the first refresh_concurrency (4) contacts that are
   questionable and were not queried in the last 30 s, closest to the target first, one datagram
   each, in that order; every one asks for our own id with the bit of the current bucket flipped.
   (The outcome of the socket sends does not matter: these are the datagrams handed to the socket.) *)
Theorem c11_round_picks : forall I sendok cf sr now s,
  let b := if Nat.eqb (ns_refresh_bucket s) max_buckets then O else ns_refresh_bucket s in
  let target := flip_bit (c_id cf) b in
  let picks := firstn refresh_concurrency
                 (filter (fun n => status_eqb (node_status now n) Questionable && negb (recently_requested_from now n))
                         (closest_nodes now (ns_table s) target)) in
  let outs := snd (continue_refresh I sendok cf sr now s) in
  send_dsts outs = map nd_addr picks /\
  (forall dst m, In (OSend dst m) outs ->
     exists k, (ns_refresh_next s <= k < ns_refresh_next s + length picks)%nat /\
       m = mkMsg (tid_bytes (aid_of I 0) (mid_of I 0 k)) (Req (FindNode (c_id cf) target None))) /\
  (length picks <= refresh_concurrency)%nat.
Proof. exact round_picks. Qed.

(* the outputs of a round, exactly *)
Theorem c11_round_outputs : forall I sendok cf sr now s,
  snd (continue_refresh I sendok cf sr now s) =
  ORefreshRound (refresh_cursor s) :: refresh_msgs I cf (refresh_picks cf now s) (refresh_target cf s) (ns_refresh_next s).
Proof. exact round_outputs. Qed.

(* the cursor moves to the next bucket, wrapping at MAX_BUCKETS; every picked contact is marked as
   queried now (this is what counts towards the two unanswered queries below) *)
Theorem c11_round_cursor : forall I sendok cf sr now s,
  let b := if Nat.eqb (ns_refresh_bucket s) max_buckets then O else ns_refresh_bucket s in
  let s' := fst (continue_refresh I sendok cf sr now s) in
  ns_refresh_bucket s' = S b /\
  ns_table s' = fold_left (fun t n => update_node now t (nd_id n) (nd_addr n) (local_request now))
                          (refresh_picks cf now s) (ns_table s) /\
  ns_refresh_next s' = (ns_refresh_next s + length (refresh_picks cf now s))%nat /\
  ns_sends s' = (ns_sends s + length (refresh_picks cf now s))%nat.
Proof. exact round_state. Qed.

Theorem c11_picks_questionable : forall cf now s n, In n (refresh_picks cf now s) ->
  node_status now n = Questionable /\ recently_requested_from now n = false /\
  In n (closest_nodes now (ns_table s) (refresh_target cf s)).
Proof. exact round_picks_questionable. Qed.

(* the answer to a refresh query reaches the table: the responder as a contact that has just
   answered, the nodes it names as hearsay *)
Theorem c11_answer_applied : forall I sendok cf sr qe now s src tid r,
  tid_action tid = Some (aid_of I 0) -> lookup_by_action I s (aid_of I 0) = None ->
  step I sendok cf sr qe now s (EvMsg src (mkMsg tid (Resp r))) =
  (set_table s (add_nodes now (ns_table s) (as_good (r_id r) src now)
                          (map handle_of (if c_v6 cf then r_nodes6 r else r_nodes4 r))), []).
Proof. exact refresh_response_applied. Qed.

(* ------------------------------------------------------------------ (3) ageing of a contact *)
(* an answer makes the contact good at once, whatever its state was *)
Theorem c11_answer_makes_good : forall now n id a,
  node_status now (node_update now n (as_good id a now)) = Good.
Proof. exact update_good_status. Qed.

Theorem c11_new_answerer_good : forall id a now, node_status now (as_good id a now) = Good.
Proof. exact as_good_status. Qed.

(* a contact is good only if it answered, or -- with fewer than two unanswered queries -- sent a
   query, less than 15 minutes ago; so it turns questionable 15 minutes after its last sign of life *)
Theorem c11_good_needs_recent_contact : forall now n,
  node_status now n = Good <->
  exists tr, last_response n = Some tr /\
    (recent now tr \/
     ((refresh_requests n < 2)%nat /\ exists tq, last_request n = Some tq /\ recent now tq)).
Proof. exact status_good_iff. Qed.

(* two queries left unanswered by a stale contact make it bad ... *)
Theorem c11_two_unanswered_bad : forall now n tr,
  last_response n = Some tr -> ~ recent now tr -> (2 <= refresh_requests n)%nat -> node_status now n = Bad.
Proof. exact two_unanswered_bad. Qed.

(* ... and it stays bad whatever queries follow, for as long as it neither answers nor is named again *)
Theorem c11_silent_stays_bad : forall n t1 t2 post now,
  t1 <= t2 ->
  node_status t1 n <> Good -> is_pingable t1 n = true ->
  node_status t2 (cstep n (t1, CQuerySent)) <> Good -> is_pingable t2 (cstep n (t1, CQuerySent)) = true ->
  ctimes_from t2 post -> (forall e, In e post -> snd e = CQueryRecv \/ snd e = CQuerySent) ->
  last_time t2 post <= now ->
  node_status now (fold_left cstep post (cstep (cstep n (t1, CQuerySent)) (t2, CQuerySent))) = Bad.
Proof. exact two_unanswered_stays_bad. Qed.

(* bad contacts are not listed: not offered to others, not searched through, not refreshed *)
Theorem c11_listed_pingable : forall now t target n,
  In n (closest_nodes now t target) -> is_pingable now n = true.
Proof. exact closest_pingable. Qed.

Theorem c11_bad_not_listed : forall now t target n,
  node_status now n = Bad -> ~ In n (closest_nodes now t target).
Proof. exact bad_not_listed. Qed.

Print Assumptions c11_refresh_alive.
Print Assumptions c11_alive_step.
Print Assumptions c11_aux_init.
Print Assumptions c11_aux_step.
Print Assumptions c11_boot_starts_chain.
Print Assumptions c11_refresh_fires.
Print Assumptions c11_round_reschedules.
Print Assumptions c11_round_picks.
Print Assumptions c11_round_outputs.
Print Assumptions c11_round_cursor.
Print Assumptions c11_picks_questionable.
Print Assumptions c11_answer_applied.
Print Assumptions c11_answer_makes_good.
Print Assumptions c11_new_answerer_good.
Print Assumptions c11_good_needs_recent_contact.
Print Assumptions c11_two_unanswered_bad.
Print Assumptions c11_silent_stays_bad.
Print Assumptions c11_listed_pingable.
Print Assumptions c11_bad_not_listed.

(* non-vacuity, on a concrete run: a bootstrap that learnt of two contacts by hearsay completes at
   1 us; the first round queries both; one of them answers, the other stays silent; a search runs
   beside the refresh (two request timeouts and its end-game timer fire); the refresh timer fires
   five times, 6 s apart.  Then: the hypothesis of c11_refresh_alive holds, the single refresh entry
   is pending with deadline 36.000001 s; round 0 queried both contacts, the round at 30 s queried
   the silent one a second time; the answering contact is good, the silent one is bad and no longer
   listed. *)
Example c11_nonvacuous :
  let I := mkIds (fun k => N.of_nat k + 100)%N (fun k n => N.of_nat n) in
  let cf := mkCfg 5 false false None in
  let a := fun k : N => mkAddr false (167772160 + k)%N 6881%N in
  let far := fun k : N => (2 ^ 159 + k)%N in
  let evs1 := [(0, EvBootTable (far 7%N) (a 7%N) [(far 1%N, a 1%N); (far 2%N, a 2%N)])] in
  let evs2 := [(2000, EvMsg (a 2%N) (mkMsg (tid_bytes 100 1) (Resp (mkResp (far 2%N) [] [] [] None))));
               (3000, EvStartLookup 77 false);
               (1500003000, EvTimer); (1500003000, EvTimer); (3000003000, EvTimer);
               (6000001000, EvTimer); (12000001000, EvTimer); (18000001000, EvTimer);
               (24000001000, EvTimer); (30000001000, EvTimer)] in
  let res := run I (fun _ => true) cf true true (ns_init 5 0) (evs1 ++ (1000, EvBootState BBootstrapped) :: evs2) in
  let s := fst res in
  etimes_from 1000 evs2 /\ elast 1000 evs2 = 30000001000 /\
  refresh_part (ns_timer s) = [mkTE 36000001000 8 TkRefresh] /\
  ns_refresh_pending s = Some (36000001000, 8%N) /\
  ns_refresh_bucket s = 6%nat /\
  map send_dsts (snd res) = [[]; [a 1%N; a 2%N]; []; [a 7%N; a 2%N]; []; []; []; []; []; []; []; [a 1%N]] /\
  map (fun n => (nd_id n, node_status 30000001000 n)) (closest_nodes 30000001000 (ns_table s) 5%N)
    = [(far 7%N, Good); (far 2%N, Good)] /\
  existsb (fun n => (nd_id n =? far 1%N)%N && status_eqb (node_status 30000001000 n) Bad)
          (concat (buckets (ns_table s))) = true.
Proof. vm_compute. repeat split; try reflexivity; discriminate. Qed.
