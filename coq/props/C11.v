(* C11 -- in progress *)
