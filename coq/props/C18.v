(* C18 -- table refresh keeps one steady cadence however often the node re-bootstraps.
   Property theorems only. *)
From BT Require Import model.Prelude model.Compact model.Krpc model.Token model.Storage model.Table model.Txn model.Handler.
From BT Require Import proofs.Handler_Facts.
Open Scope Z_scope.

(* in every reachable state of the node -- after ANY list of events: datagrams, timers, searches,
   any number of bootstrap completions and losses -- at most one table-refresh entry is pending in
   the timer; so refresh rounds happen at most once per bootstrap completion plus once per firing
   of that single self-rescheduling 6-second timer *)
Theorem c18_one_chain : forall I sendok cf qe id t0 evs,
  (length (refresh_part (ns_timer (fst (run I sendok cf true qe (ns_init id t0) evs)))) <= 1)%nat.
Proof. exact one_refresh_chain. Qed.

(* the invariant behind it, per event: the refresh entries of the timer are the single remembered one *)
Theorem c18_step_invariant : forall I sendok cf qe now s e,
  Inv18p s -> Inv18p (fst (step I sendok cf true qe now s e)).
Proof. exact step_inv18. Qed.

(* a refresh round sends nothing but find_node queries and schedules exactly one next round *)
Theorem c18_round_is_quiet : forall I sendok cf sr now s,
  forallb quiet (snd (continue_refresh I sendok cf sr now s)) = true.
Proof. exact continue_refresh_quiet. Qed.

Print Assumptions c18_one_chain.
Print Assumptions c18_step_invariant.
Print Assumptions c18_round_is_quiet.

(* the pinned refresh (no cancellation): k bootstrap completions leave k pending refresh timers, i.e.
   k rounds per 6 seconds for ever -- the genuine defect repaired in /repo *)
Example c18_pinned_refuted :
  let I := mkIds (fun k => N.of_nat k + 100)%N (fun k n => N.of_nat n) in
  let cf := mkCfg 5 false false None in
  let evs := [(0, EvBootState BBootstrapped); (5000000000, EvBootState BInitialContact);
              (5100000000, EvBootState BBootstrapped); (10100000000, EvBootState BInitialContact);
              (10200000000, EvBootState BBootstrapped)] in
  length (refresh_part (ns_timer (fst (run I (fun _ => true) cf false true (ns_init 5 0) evs)))) = 3%nat /\
  length (refresh_part (ns_timer (fst (run I (fun _ => true) cf true true (ns_init 5 0) evs)))) = 1%nat.
Proof. vm_compute. split; reflexivity. Qed.
