(* C05 -- each well-formed query gets exactly one correct reply; nothing else is answered.
   Property theorems only.  [handle_query] is the query part of handle_incoming; [step] is one
   handler event (model/Handler.v).  A datagram that does not decode never becomes an event. *)
From BT Require Import model.Prelude model.Compact model.Krpc model.Token model.Storage model.Table model.Handler.
From BT Require Import proofs.Handler_Facts.
Open Scope Z_scope.

(* a read-only node never replies to any query and is left unchanged by it *)
Theorem c05_read_only_silent : forall now cf t tk st src tid q,
  c_read_only cf = true -> handle_query now cf t tk st src tid q = (t, tk, st, None).
Proof. exact hq_read_only. Qed.

(* a serving node: exactly one reply, to the source (the step emits [OSend src reply]), echoing the
   transaction id bytes unchanged (any length), carrying the node's own id or being an error *)
Theorem c05_one_reply : forall now cf t tk st src tid q,
  c_read_only cf = false ->
  exists m, snd (handle_query now cf t tk st src tid q) = Some m /\ m_tid m = tid /\
    ((exists r, m_body m = Resp r /\ r_id r = c_id cf) \/ (exists c x, m_body m = Err c x)).
Proof. exact hq_one_reply. Qed.

(* ping: no token, no values, no nodes *)
Theorem c05_ping_shape : forall now cf t tk st src tid id,
  c_read_only cf = false ->
  snd (handle_query now cf t tk st src tid (Ping id)) = Some (mkMsg tid (Resp (mkResp (c_id cf) [] [] [] None))).
Proof. exact hq_ping. Qed.

(* find_node: no token, no values; the node lists are those of find_closest *)
Theorem c05_find_node_shape : forall now cf t tk st src tid id target w,
  c_read_only cf = false ->
  exists n4 n6,
    snd (handle_query now cf t tk st src tid (FindNode id target w)) = Some (mkMsg tid (Resp (mkResp (c_id cf) [] n4 n6 None))) /\
    (n4, n6) = find_closest now (update_node now t id src (remote_request now)) (c_v6 cf) target w.
Proof. exact hq_find_node. Qed.

(* get_peers: a 20-byte token; values only of the requester's address family *)
Theorem c05_get_peers_shape : forall now cf t tk st src tid id ih w,
  c_read_only cf = false ->
  exists vals n4 n6 k,
    snd (handle_query now cf t tk st src tid (GetPeers id ih w)) = Some (mkMsg tid (Resp (mkResp (c_id cf) vals n4 n6 (Some k)))) /\
    length k = 20%nat /\
    forallb (fun a => Bool.eqb (a_v6 a) (a_v6 src)) vals = true /\
    (length vals <= max_values (length tid) (a_v6 src))%nat /\
    vals = firstn (max_values (length tid) (a_v6 src))
                  (filter (fun a => Bool.eqb (a_v6 a) (a_v6 src)) (fst (find ih now st))) /\
    (n4, n6) = find_closest now (update_node now t id src (remote_request now)) (c_v6 cf) ih w.
Proof. exact hq_get_peers. Qed.

(* nodes only of the requested families (want, else the node's own family), at most 8 per family *)
Theorem c05_node_lists : forall now t own_v6 target w,
  let '(n4, n6) := find_closest now t own_v6 target w in
  (length n4 <= 8)%nat /\ (length n6 <= 8)%nat /\
  forallb (fun n => negb (a_v6 (n_addr n))) n4 = true /\ forallb (fun n => a_v6 (n_addr n)) n6 = true /\
  (match (match w with Some x => x | None => if own_v6 then WantV6 else WantV4 end) with
   | WantV4 => n6 = [] | WantV6 => n4 = [] | WantBoth => True end).
Proof. exact find_closest_shape. Qed.

(* announce_peer: error 203 exactly when the token check fails -- and then nothing is stored;
   error 202 exactly when the store refuses; an acknowledgement otherwise.  The stored contact is
   the source IP with the announced port, or the source port when the port is implied (C06/C07
   handler clauses). *)
Theorem c05_announce_reply : forall now cf t tk st src tid id ih port token,
  c_read_only cf = false ->
  let valid := if Nat.eqb (length token) 20
               then fst (checkin (ip_of src) (tok_of_bytes (ip_of src) token) now tk) else false in
  let caddr := match port with None => src | Some p => mkAddr (a_v6 src) (a_ip src) p end in
  let '(_, _, st', reply) := handle_query now cf t tk st src tid (AnnouncePeer id ih port token) in
  if valid then
    st' = snd (add (ih, caddr) now st) /\
    reply = Some (mkMsg tid (if fst (add (ih, caddr) now st)
                             then Resp (mkResp (c_id cf) [] [] [] None)
                             else Err 202%N err_text_full))
  else st' = st /\ reply = Some (mkMsg tid (Err 203%N err_text_token)).
Proof. exact hq_announce. Qed.

(* response and error messages are sent only as replies to queries: every event that is not a
   query -- responses (solicited or not), errors, timers, commands, bootstrap changes -- sends,
   if anything, only queries.  (Undecodable datagrams never reach the handler.) *)
Theorem c05_only_queries_otherwise : forall I sendok cf sr qe now s e,
  is_query_event e = false ->
  forall dst m, In (OSend dst m) (snd (step I sendok cf sr qe now s e)) -> exists q, m_body m = Req q.
Proof.
  intros I sendok cf sr qe now s e Hq dst m Hin.
  assert (Hquiet : quiet (OSend dst m) = true \/ exists q, m_body m = Req q).
  { destruct (is_response_event e) eqn:Er.
    - destruct e as [src [tid [q|r|c x]]| | | | | | | | |]; try discriminate.
      destruct (step_response I sendok cf sr qe now s src tid r _ Hin) as [H|[act [a [aid [lk [H _]]]]]]; [left; exact H | discriminate].
    - pose proof (step_quiet I sendok cf sr qe now s e Hq Er) as H. rewrite forallb_forall in H. left. apply H, Hin. }
  destruct Hquiet as [H|H]; [|exact H].
  destruct m as [t [q|r|c x]]; cbn in H; try discriminate. exists q. reflexivity.
Qed.

Print Assumptions c05_read_only_silent.
Print Assumptions c05_one_reply.
Print Assumptions c05_ping_shape.
Print Assumptions c05_find_node_shape.
Print Assumptions c05_get_peers_shape.
Print Assumptions c05_node_lists.
Print Assumptions c05_announce_reply.
Print Assumptions c05_only_queries_otherwise.

Example c05_nonvacuous :
  let cf := mkCfg 5 false false None in
  let src := mkAddr false 167772161 4000 in
  let '(t1, tk1, st1, r1) := handle_query 10 cf (new_table 5) (tinit 0) empty_store src [1;2]%N (GetPeers 9 77 None) in
  match r1 with
  | Some (mkMsg _ (Resp r)) =>
      match r_token r with
      | Some k =>
          let '(_, _, st2, r2) := handle_query 20 cf t1 tk1 st1 src [3]%N (AnnouncePeer 9 77 (Some 6000%N) k) in
          let '(_, _, _, r3) := handle_query 30 cf t1 tk1 st2 src [4]%N (GetPeers 9 77 None) in
          match r2, r3 with
          | Some (mkMsg _ (Resp _)), Some (mkMsg _ (Resp r')) => r_values r' = [mkAddr false 167772161 6000]
          | _, _ => False
          end
      | None => False
      end
  | _ => False
  end.
Proof. vm_compute. reflexivity. Qed.
