(* C07 -- peer store: exact, duplicate-free, 24-hour, capacity-bounded answers.
   Property theorems only (storage part; the handler part -- contact address
   derivation and family filter -- is in C05/Handler). *)
From BT Require Import model.Prelude model.Storage proofs.Storage_Facts.
Open Scope Z_scope.

(* Refinement to the abstract map  (info-hash, address) -> time of the last
   successful announce.  For EVERY history of announces and lookups with
   non-decreasing time stamps, every reply of the store is the reply of the spec:
   - a lookup returns a duplicate-free list containing exactly the addresses
     whose last successful announce for that info-hash is less than 24 h old;
   - an announce is accepted iff the pair is still live (renewal) or fewer than
     500 distinct pairs are live; an accepted announce sets the pair's time to
     now (restarting its 24 h) and changes no other pair; a refused one changes
     nothing. *)
Theorem c07_refines_spec : forall (ops : list (Z * sop)) (t0 : Z),
  times_from t0 ops ->
  spec_trace aempty ops (snd (srun empty_store ops)).
Proof. exact storage_refines_spec. Qed.

(* at most 500 pairs are held, at any point of any history, and the per-hash
   lists hold exactly the queued pairs *)
Theorem c07_capacity : forall (ops : list (Z * sop)) (t0 : Z),
  times_from t0 ops ->
  (length (expires (fst (srun empty_store ops))) <= 500)%nat /\
  length (live (fst (srun empty_store ops))) = length (expires (fst (srun empty_store ops))).
Proof. exact storage_capacity. Qed.

(* what the abstract update means: re-announcing restarts exactly that pair's
   24 hours and alters no other pair *)
Theorem c07_upd_meaning : forall (m : amap) (it x : item) (t now : Z),
  (alive (upd m it t) now it <-> dur_since now t < 86400000000000) /\
  (x <> it -> (alive (upd m it t) now x <-> alive m now x)).
Proof.
  intros m it x t now. unfold alive, upd. split.
  - rewrite item_eqb_refl. split; [intros [t' [E H]]; inversion E; subst; exact H | intros H; exists t; split; [reflexivity | exact H]].
  - intros Hne. apply item_eqb_neq in Hne. rewrite Hne. tauto.
Qed.

Print Assumptions c07_refines_spec.
Print Assumptions c07_capacity.
Print Assumptions c07_upd_meaning.

(* non-vacuity: a concrete history with a renewal, an expiry at exactly 24 h and a lookup *)
Example c07_nonvacuous :
  let a := mkAddr false 167772161 6881 in
  let ops := [(0, SAdd (7%N, a)); (10, SAdd (7%N, a)); (86400000000009, SFind 7%N); (86400000000010, SFind 7%N)] in
  times_from 0 ops /\
  snd (srun empty_store ops) = [OAdd true; OAdd true; OFind [a]; OFind []].
Proof. vm_compute. repeat split; discriminate. Qed.
