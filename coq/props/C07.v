(* C07 -- peer store: exact, duplicate-free, 24-hour, capacity-bounded answers.
   Property theorems only (storage part; the handler part -- contact address
   derivation and family filter -- is in C05/Handler). *)
From BT Require Import model.Prelude model.Storage proofs.Storage_Facts.
Open Scope Z_scope.

(* Refinement to the abstract map  (info-hash, address) -> time of the last
   successful announce.  For EVERY history of announces and lookups with
   non-decreasing time stamps, every reply of the store is the reply of the spec:
   - a lookup returns a duplicate-free list containing exactly the addresses
     whose last successful announce for that info-hash is less than 24 h old;
   - an announce is accepted iff the pair is still live (renewal) or fewer than
     500 distinct pairs are live; an accepted announce sets the pair's time to
     now (restarting its 24 h) and changes no other pair; a refused one changes
     nothing. *)
Theorem c07_refines_spec : forall (ops : list (Z * sop)) (t0 : Z),
  times_from t0 ops ->
  spec_trace aempty ops (snd (srun empty_store ops)).
Proof. exact storage_refines_spec. Qed.

(* at most 500 pairs are held, at any point of any history, and the per-hash
   lists hold exactly the queued pairs *)
Theorem c07_capacity : forall (ops : list (Z * sop)) (t0 : Z),
  times_from t0 ops ->
  (length (expires (fst (srun empty_store ops))) <= 500)%nat /\
  length (live (fst (srun empty_store ops))) = length (expires (fst (srun empty_store ops))).
Proof. exact storage_capacity. Qed.

(* what the abstract update means: re-announcing restarts exactly that pair's
   24 hours and alters no other pair *)
Theorem c07_upd_meaning : forall (m : amap) (it x : item) (t now : Z),
  (alive (upd m it t) now it <-> dur_since now t < 86400000000000) /\
  (x <> it -> (alive (upd m it t) now x <-> alive m now x)).
Proof.
  intros m it x t now. unfold alive, upd. split.
  - rewrite item_eqb_refl. split; [intros [t' [E H]]; inversion E; subst; exact H | intros H; exists t; split; [reflexivity | exact H]].
  - intros Hne. apply item_eqb_neq in Hne. rewrite Hne. tauto.
Qed.

Print Assumptions c07_refines_spec.
Print Assumptions c07_capacity.
Print Assumptions c07_upd_meaning.

(* non-vacuity: a concrete history with a renewal, an expiry at exactly 24 h and a lookup *)
Example c07_nonvacuous :
  let a := mkAddr false 167772161 6881 in
  let ops := [(0, SAdd (7%N, a)); (10, SAdd (7%N, a)); (86400000000009, SFind 7%N); (86400000000010, SFind 7%N)] in
  times_from 0 ops /\
  snd (srun empty_store ops) = [OAdd true; OAdd true; OFind [a]; OFind []].
Proof. vm_compute. repeat split; discriminate. Qed.

(* ------------------------------------------------------------------ the executable checker and the spec
   [c07_ok] (run/Run_Storage.v) is the checker that is evaluated on the outputs OBSERVED from the real
   implementation.  It decides the specification above: for every script and EVERY list of observed
   outputs (of any length and shape, lookups with duplicates included), the checker raises no alarm
   iff  the observed trace satisfies [spec_trace].  (The equivalence needs no hypothesis on the time
   stamps; the hypothesis is kept in the first two statements only to match the setting of
   [c07_refines_spec].) *)
From BT Require Import run.Run_Storage proofs.Checker_Storage_Facts.

(* soundness: a trace the checker accepts satisfies the formal spec *)
Theorem c07_checker_sound : forall (ops : list (Z * sop)) (t0 : Z) (obs : list sout),
  times_from t0 ops ->
  c07_ok ops obs = None ->
  spec_trace aempty ops obs.
Proof. exact c07_ok_sound. Qed.

(* completeness: no alarm on any trace that satisfies the spec *)
Theorem c07_checker_complete : forall (ops : list (Z * sop)) (t0 : Z) (obs : list sout),
  times_from t0 ops ->
  spec_trace aempty ops obs ->
  c07_ok ops obs = None.
Proof. exact c07_ok_complete. Qed.

(* both, without any hypothesis on the time stamps *)
Theorem c07_checker_decides_spec : forall (ops : list (Z * sop)) (obs : list sout),
  c07_ok ops obs = None <-> spec_trace aempty ops obs.
Proof. exact c07_ok_iff_spec. Qed.

(* the checker never rejects the model's own trace *)
Theorem c07_checker_accepts_model : forall (ops : list (Z * sop)) (t0 : Z),
  times_from t0 ops ->
  c07_ok_model ops = None.
Proof. exact c07_ok_model_silent. Qed.

Print Assumptions c07_checker_sound.
Print Assumptions c07_checker_complete.
Print Assumptions c07_checker_decides_spec.
Print Assumptions c07_checker_accepts_model.

(* non-vacuity: the checker accepts the correct trace of the history above and flags, at the right
   index, a trace that still returns the peer at exactly 24 h *)
Example c07_checker_nonvacuous :
  let a := mkAddr false 167772161 6881 in
  let ops := [(0, SAdd (7%N, a)); (10, SAdd (7%N, a)); (86400000000009, SFind 7%N); (86400000000010, SFind 7%N)] in
  c07_ok ops [OAdd true; OAdd true; OFind [a]; OFind []] = None /\
  c07_ok ops [OAdd true; OAdd true; OFind [a]; OFind [a]] = Some 3%N /\
  c07_ok ops [OAdd true; OAdd true; OFind [a; a]; OFind []] = Some 2%N.
Proof. vm_compute. repeat split. Qed.
