(* C17 -- every datagram the node emits fits the 1500-byte receive buffer.
   Property theorems only.  The encoder is model/Krpc.v ([encode_msg], proved in C13 to emit the
   canonical BEP 5 bytes and tied to Message::encode by the C13 correspondence runs); the reply
   builder is model/Handler.v ([handle_query]); lemmas in proofs/Krpc_Length.v.
   Lengths: [slen n] = digits(n) + 1 + n is the length of a bencoded n-byte string. *)
From BT Require Import model.Prelude model.Compact model.Krpc model.Token model.Storage model.Table model.Txn model.Handler.
From BT Require Import proofs.Txn_Facts proofs.Krpc_Length.
Open Scope nat_scope.

(* exact length of an encoded response:
     14 + slen |t|                                   d 1:r . 1:t <t> 1:y 1:r e
     + 2 + 27                                        d 2:id 20:<id> .. e
     + 8 + 2 + 8 * #v4 peers + 21 * #v6 peers        6:values l .. e      (if any)
     + 7 + slen (26 * #nodes)                        5:nodes              (if any)
     + 8 + slen (38 * #nodes6)                       6:nodes6             (if any)
     + 7 + slen |token|                              5:token              (if present)
   for every response whose node lists are of the right family (any other encodes to an error);
   and of an error: 14 + slen |t| + 4 + digits(code) + slen |text|. *)
Theorem c17_len_formula :
  (forall (tid : bytes) (r : response), families_ok r ->
     exists b, encode_msg (mkMsg tid (Resp r)) = Some b /\ length b = 14 + slen (length tid) + resp_len r) /\
  (forall (tid : bytes) (c : N) (t : bytes),
     exists b, encode_msg (mkMsg tid (Err c t)) = Some b /\
               length b = 14 + slen (length tid) + (4 + length (dec_N c) + slen (length t))).
Proof. exact (conj response_length error_length). Qed.

(* Every reply the handler produces -- to ping, find_node, get_peers, announce_peer, including both
   error replies -- encodes, and to at most 1500 bytes: for EVERY configuration, routing table, token
   store, peer store (any number of stored peers), source address, query, and every transaction id of
   up to 800 bytes (= 1500 - REPLY_OVERHEAD_LEN).  No hypothesis on ids or addresses is needed: the
   encoder writes fixed-width fields. *)
Theorem c17_reply_le_1500 : forall now cf t tk st src (tid : bytes) q m,
  length tid <= 800 ->
  snd (handle_query now cf t tk st src tid q) = Some m ->
  exists b, encode_msg m = Some b /\ length b <= 1500.
Proof. exact reply_le_1500. Qed.

(* the property's own quantifier: transaction ids up to 32 bytes *)
Theorem c17_reply_le_1500_tid32 : forall now cf t tk st src (tid : bytes) q m,
  length tid <= 32 ->
  snd (handle_query now cf t tk st src tid q) = Some m ->
  exists b, encode_msg m = Some b /\ length b <= 1500.
Proof. intros now cf t tk st src tid q m H. apply reply_le_1500. unfold max_tid_len. lia. Qed.

(* The queries the node builds carry an 8-byte transaction id ([tid_bytes]) and no `want`:
   get_peers is 101 bytes, find_node 98 bytes; announce_peer is at most 141 + digits(|token|) + |token|
   bytes (reached with implied_port), hence within 1500 whenever the token handed out by the remote
   node is at most 1355 bytes.  A hostile responder can hand out a longer token, which the node would
   echo in an oversized announce_peer: that is outside C17's quantifier (tokens of this
   implementation are 20 bytes). *)
Theorem c17_queries_small :
  (forall aid mid, length (tid_bytes aid mid) = 8) /\
  (forall own (tid : bytes) target, length tid = 8 ->
     exists b, encode_msg (get_peers_msg own tid target) = Some b /\ length b = 101 /\ length b <= 110) /\
  (forall own (tid : bytes) target, length tid = 8 ->
     exists b, encode_msg (mkMsg tid (Req (FindNode own target None))) = Some b /\ length b = 98 /\ length b <= 110) /\
  (forall own (tid : bytes) ih port (token : bytes), length tid = 8 ->
     (match port with Some p => (p < 65536)%N | None => True end) ->
     exists b, encode_msg (mkMsg tid (Req (AnnouncePeer own ih port token))) = Some b /\
               length b <= 141 + dlen (length token) + length token /\
               (length token <= 1355 -> length b <= 1500)).
Proof.
  split; [intros; apply compose_length|]. split; [|split].
  - intros own tid target Ht. destruct (get_peers_query_length own tid target Ht) as [b [E L]].
    exists b. unfold get_peers_msg. repeat split; [exact E | exact L | lia].
  - intros own tid target Ht. destruct (find_node_query_length own tid target Ht) as [b [E L]].
    exists b. repeat split; [exact E | exact L | lia].
  - intros own tid ih port token Ht Hp. destruct (announce_query_length own tid ih port token Ht Hp) as [b [E L]].
    exists b. repeat split; [exact E | exact L|]. intros Hk.
    destruct (announce_query_le_1500 own tid ih port token Ht Hp Hk) as [b' [E' L']]. congruence.
Qed.

(* the pinned handler collected the values without a cap: 180 IPv4 peers on one info-hash and a full
   `nodes` list make a get_peers reply of 1746 bytes *)
Theorem c17_pinned_refuted :
  let m := uncapped_reply (bs "aa") 1 (repeat (mkAddr false 167772161 6881) 180)
                          (repeat (mkNodeh 2 (mkAddr false 167772162 6881)) 8) [] (repeat 0%N 20) in
  exists b, encode_msg m = Some b /\ length b = 1746 /\ 1500 < length b.
Proof. eexists. split; [vm_compute; reflexivity|]. split; [vm_compute; reflexivity | vm_compute; lia]. Qed.

Print Assumptions c17_len_formula.
Print Assumptions c17_reply_le_1500.
Print Assumptions c17_reply_le_1500_tid32.
Print Assumptions c17_queries_small.
Print Assumptions c17_pinned_refuted.

(* non-vacuity: a response with every optional part, its length by the formula and by the encoder;
   and the cap at work: 95 values fit a reply to a 2-byte transaction id *)
Example c17_formula_nonvacuous :
  let r := mkResp 1 [mkAddr false 1 2; mkAddr true 3 4] [mkNodeh 5 (mkAddr false 6 7)] [mkNodeh 8 (mkAddr true 9 10)] (Some [1; 2; 3]%N) in
  families_ok r /\ option_map (@length N) (encode_msg (mkMsg (bs "aa") (Resp r))) = Some (14 + slen 2 + resp_len r) /\
  14 + slen 2 + resp_len r = 183.
Proof. cbv zeta. split; [split; repeat constructor|]. split; vm_compute; reflexivity. Qed.

Example c17_cap_nonvacuous : max_values 2 false = 99 /\ max_values 32 false = 96 /\ max_values 32 true = 36 /\
  max_values 800 false = 0.
Proof. vm_compute. repeat split. Qed.
