(* C03 -- searches never fabricate peers, tokens or announce targets on hostile networks.
   Property theorems only.  They hold for ARBITRARY events: any datagram from any source in any
   order, duplicates, forged ids, timers in any order (the handler state [s] is arbitrary too). *)
From BT Require Import model.Prelude model.Compact model.Krpc model.Token model.Storage model.Table model.Txn model.Handler.
From BT Require Import proofs.Handler_Facts.
Open Scope Z_scope.

(* every address a search stream yields was contained in the values of a response whose
   transaction id was, at that moment, an outstanding get_peers query of that same search *)
Theorem c03_yield_only_from_outstanding : forall I sendok cf sr qe now s e act a,
  In (OYield act a) (snd (step I sendok cf sr qe now s e)) ->
  exists src tid r aid lk,
    e = EvMsg src (mkMsg tid (Resp r)) /\ In a (r_values r) /\
    tid_action tid = Some aid /\ lookup_by_action I s aid = Some lk /\ lk_act lk = act /\
    exists v, In (tid, v) (lk_active lk).
Proof. exact step_yield_sound. Qed.

(* a response whose id is not 8 bytes, or whose action prefix belongs to no live search and not to
   the refresh, changes nothing and yields nothing; errors never do *)
Theorem c03_unsolicited_rejected : forall I sendok cf sr qe now s src tid r,
  (tid_action tid = None \/
   exists a, tid_action tid = Some a /\ lookup_by_action I s a = None /\ aid_of I 0 <> a) ->
  step I sendok cf sr qe now s (EvMsg src (mkMsg tid (Resp r))) = (s, []).
Proof. exact unsolicited_noop. Qed.

Theorem c03_short_or_long_id_rejected : forall tid, length tid <> 8%nat -> tid_action tid = None.
Proof. exact tid_action_len. Qed.

(* a response never changes a search other than the one whose action prefix it carries *)
Theorem c03_cross_search_isolation : forall I sendok cf sr qe now s src tid r lkb,
  In lkb (ns_lookups s) ->
  (forall aid lk, tid_action tid = Some aid -> lookup_by_action I s aid = Some lk -> lk_act lkb <> lk_act lk) ->
  In lkb (ns_lookups (fst (step I sendok cf sr qe now s (EvMsg src (mkMsg tid (Resp r)))))).
Proof. exact response_isolation. Qed.

(* when a search ends: at most 8 announce_peer, each to the address of a node for which a token is
   recorded, carrying the latest token recorded for it, the searched info-hash, our id and the
   configured port (None = implied); none at all when announcing was not requested *)
Theorem c03_announce_only_token_holders : forall I sendok own now lk c aport,
  extP (fun o => is_announce_ok own (lk_target lk) aport (lk_tokens lk) o) c (recv_finished I sendok own now lk c aport) /\
  (length (cx_out (recv_finished I sendok own now lk c aport)) <= 8 + 1 + length (cx_out c))%nat /\
  (lk_announce lk = false -> cx_out (recv_finished I sendok own now lk c aport) = OStreamEnd (lk_act lk) :: cx_out c).
Proof. exact recv_finished_announces. Qed.

(* a token is recorded only from an accepted response (outstanding id), under the responder's
   (id, address), and is the token that response carried *)
Theorem c03_tokens_only_from_accepted : forall lk from tid r v6 d x,
  In x (lk_tokens (fst (fst (rr_accept lk from tid r v6 d)))) ->
  In x (lk_tokens lk) \/ (exists tok, r_token r = Some tok /\ x = (from, tok)).
Proof. exact rr_accept_tokens. Qed.

Print Assumptions c03_yield_only_from_outstanding.
Print Assumptions c03_unsolicited_rejected.
Print Assumptions c03_short_or_long_id_rejected.
Print Assumptions c03_cross_search_isolation.
Print Assumptions c03_announce_only_token_holders.
Print Assumptions c03_tokens_only_from_accepted.

(* non-vacuity: a search in progress accepts a response carrying a peer and a token, a forged one
   with a flipped id bit is ignored *)
Example c03_nonvacuous :
  let I := mkIds (fun k => N.of_nat k + 100)%N (fun k n => N.of_nat n) in
  let cf := mkCfg 5 false false None in
  let nd := mkAddr false 167772162 7001 in
  let peer := mkAddr false 3232235525 5555 in
  let s0 := ns_init 5 0 in
  let s1 := fst (step I (fun _ => true) cf true true 0 s0 (EvBootState BBootstrapped)) in
  let s2 := fst (step I (fun _ => true) cf true true 1 s1 (EvBootTable (2 ^ 159)%N nd [])) in
  let '(s3, o3) := step I (fun _ => true) cf true true 2 s2 (EvStartLookup 77%N true) in
  let good := mkMsg (tid_bytes 102 0) (Resp (mkResp (2 ^ 159)%N [peer] [] [] (Some [1;2;3]%N))) in
  let forged := mkMsg (tid_bytes 102 1) (Resp (mkResp (2 ^ 159)%N [peer] [] [] (Some [9]%N))) in
  let '(s4, o4) := step I (fun _ => true) cf true true 3 s3 (EvMsg nd forged) in
  let '(s5, o5) := step I (fun _ => true) cf true true 4 s4 (EvMsg nd good) in
  (length o3 = 1%nat) /\ o4 = [] /\ In (OYield 2 peer) o5.
Proof. vm_compute. split; [reflexivity|]. split; [reflexivity|]. left. reflexivity. Qed.
