(* C02 -- a search reaches the 8 closest nodes, announces to them, yields every peer found.
   Property theorems only.  Proved: what the search does with what it learns -- the candidate list
   is kept sorted by XOR distance (the code's binary search is correct), announces go to the closest
   token holders it knows, each accepted answer's values reach the stream exactly.  That the search
   LEARNS the network's 8 closest nodes under the property's premises (convergence) is decided on
   simulated runs -- see the level note (partial). *)
From BT Require Import model.Prelude model.Compact model.Krpc model.Token model.Storage model.Table model.Txn model.Handler.
From BT Require Import proofs.Handler_Facts proofs.Lookup_Facts.
Open Scope N_scope.

(* the branch-free binary search of core::slice, on a sorted candidate list: a correct insertion
   point (everything before is not farther, everything from it on is not closer), and "found" only
   with an element at exactly that distance *)
Theorem c02_binary_search_correct : forall l d, sorted l -> bs_ok l d (binary_search l d).
Proof. exact binary_search_spec. Qed.

(* inserting a node keeps the candidates sorted by distance to the target *)
Theorem c02_candidates_stay_sorted : forall l target h pinged,
  sorted l -> sorted (insert_sorted l target h pinged).
Proof. exact insert_sorted_sorted. Qed.

(* ... through everything a search does: its start, every response, every timeout *)
Theorem c02_new_search_sorted : forall I sendok own now act target an c,
  sorted (lk_sorted (fst (lookup_new I sendok own now act target an c))).
Proof. exact lookup_new_sorted. Qed.

Theorem c02_response_keeps_sorted : forall I sendok own now lk c from tid r v6,
  sorted (lk_sorted lk) -> sorted (lk_sorted (fst (recv_response I sendok own now lk c from tid r v6))).
Proof. exact recv_response_sorted. Qed.

Theorem c02_timeout_keeps_sorted : forall I sendok own now lk c tid,
  sorted (lk_sorted lk) -> sorted (lk_sorted (fst (recv_timeout I sendok own now lk c tid))).
Proof. exact recv_timeout_sorted. Qed.

(* the (at most 8) nodes announced to are the closest token holders among all nodes the search
   heard of: every holder that gets no announce is at least as far as every one that does *)
Theorem c02_announce_to_closest_holders : forall lk, sorted (lk_sorted lk) ->
  let holders := filter (fun e => existsb (fun t => handle_eqb (fst t) (snd (fst e))) (lk_tokens lk)) (lk_sorted lk) in
  forall x y, In x (firstn announce_pick holders) -> In y holders -> ~ In y (firstn announce_pick holders) ->
  cdist x <= cdist y.
Proof. exact announce_targets_closest. Qed.

(* each announce carries the token that very node issued in this search, the searched info-hash,
   our id and the configured / implied port: c03_announce_only_token_holders *)

(* the stream gets every peer of every accepted answer, in order, once per occurrence *)
Theorem c02_yield_all : forall I sendok own now lk c from tid r v6 v,
  List.find (fun e => bytes_eqb (fst e) tid) (lk_active lk) = Some v ->
  exists l, cx_out (snd (recv_response I sendok own now lk c from tid r v6))
            = rev (map (OYield (lk_act lk)) (r_values r)) ++ l ++ cx_out c /\
            forallb is_query_send l = true.
Proof. exact recv_response_yields_exact. Qed.

Print Assumptions c02_binary_search_correct.
Print Assumptions c02_candidates_stay_sorted.
Print Assumptions c02_new_search_sorted.
Print Assumptions c02_response_keeps_sorted.
Print Assumptions c02_timeout_keeps_sorted.
Print Assumptions c02_announce_to_closest_holders.
Print Assumptions c02_yield_all.

(* the code's own "TODO: Bug": with two handles sharing one id the candidate list can hold the
   same handle twice -- why the property requires pairwise distinct node ids *)
Example c02_dup_id_caveat :
  let a1 := mkAddr false 1 1 in let a2 := mkAddr false 2 2 in let a3 := mkAddr false 3 3 in
  let l := fold_left (fun l h => insert_sorted l 0 h false) [(7, a1); (7, a2); (7, a3); (7, a2)] [] in
  length l = 4%nat.
Proof. vm_compute. reflexivity. Qed.
