(* C02 -- a search reaches the 8 closest nodes, announces to them, yields every peer found.
   Property theorems only.  Proved: what the search does with what it learns -- the candidate list
   is kept sorted by XOR distance (the code's binary search is correct), announces go to the closest
   token holders it knows, each accepted answer's values reach the stream exactly.  That the search
   LEARNS the network's 8 closest nodes under the property's premises (convergence) is decided on
   simulated runs -- see the level note (partial). *)
From BT Require Import model.Prelude model.Compact model.Krpc model.Token model.Storage model.Table model.Txn model.Handler.
From BT Require Import proofs.Handler_Facts proofs.Lookup_Facts.
Open Scope N_scope.

(* the branch-free binary search of core::slice, on a sorted candidate list: a correct insertion
   point (everything before is not farther, everything from it on is not closer), and "found" only
   with an element at exactly that distance *)
Theorem c02_binary_search_correct : forall l d, sorted l -> bs_ok l d (binary_search l d).
Proof. exact binary_search_spec. Qed.

(* inserting a node keeps the candidates sorted by distance to the target *)
Theorem c02_candidates_stay_sorted : forall l target h pinged,
  sorted l -> sorted (insert_sorted l target h pinged).
Proof. exact insert_sorted_sorted. Qed.

(* ... through everything a search does: its start, every response, every timeout *)
Theorem c02_new_search_sorted : forall I sendok own now act target an c,
  sorted (lk_sorted (fst (lookup_new I sendok own now act target an c))).
Proof. exact lookup_new_sorted. Qed.

Theorem c02_response_keeps_sorted : forall I sendok own now lk c from tid r v6,
  sorted (lk_sorted lk) -> sorted (lk_sorted (fst (recv_response I sendok own now lk c from tid r v6))).
Proof. exact recv_response_sorted. Qed.

Theorem c02_timeout_keeps_sorted : forall I sendok own now lk c tid,
  sorted (lk_sorted lk) -> sorted (lk_sorted (fst (recv_timeout I sendok own now lk c tid))).
Proof. exact recv_timeout_sorted. Qed.

(* the (at most 8) nodes announced to are the closest token holders among all nodes the search
   heard of: every holder that gets no announce is at least as far as every one that does *)
Theorem c02_announce_to_closest_holders : forall lk, sorted (lk_sorted lk) ->
  let holders := filter (fun e => existsb (fun t => handle_eqb (fst t) (snd (fst e))) (lk_tokens lk)) (lk_sorted lk) in
  forall x y, In x (firstn announce_pick holders) -> In y holders -> ~ In y (firstn announce_pick holders) ->
  cdist x <= cdist y.
Proof. exact announce_targets_closest. Qed.

(* each announce carries the token that very node issued in this search, the searched info-hash,
   our id and the configured / implied port: c03_announce_only_token_holders *)

(* the stream gets every peer of every accepted answer, in order, once per occurrence *)
Theorem c02_yield_all : forall I sendok own now lk c from tid r v6 v,
  List.find (fun e => bytes_eqb (fst e) tid) (lk_active lk) = Some v ->
  exists l, cx_out (snd (recv_response I sendok own now lk c from tid r v6))
            = rev (map (OYield (lk_act lk)) (r_values r)) ++ l ++ cx_out c /\
            forallb is_query_send l = true.
Proof. exact recv_response_yields_exact. Qed.

Print Assumptions c02_binary_search_correct.
Print Assumptions c02_candidates_stay_sorted.
Print Assumptions c02_new_search_sorted.
Print Assumptions c02_response_keeps_sorted.
Print Assumptions c02_timeout_keeps_sorted.
Print Assumptions c02_announce_to_closest_holders.
Print Assumptions c02_yield_all.

(* the code's own "TODO: Bug": with two handles sharing one id the candidate list can hold the
   same handle twice -- why the property requires pairwise distinct node ids *)
Example c02_dup_id_caveat :
  let a1 := mkAddr false 1 1 in let a2 := mkAddr false 2 2 in let a3 := mkAddr false 3 3 in
  let l := fold_left (fun l h => insert_sorted l 0 h false) [(7, a1); (7, a2); (7, a3); (7, a2)] [] in
  length l = 4%nat.
Proof. vm_compute. reflexivity. Qed.

(* ================================================================== second part: nothing heard of is left unqueried *)
(* The convergence argument has two halves.  "The answers name ever closer nodes until the 8 closest
   are known" depends on what the other nodes answer and is decided on simulated runs.  The other
   half is about this node's code alone and is proved here for all inputs: every node named in an
   accepted answer becomes a candidate; a candidate is flagged "queried" only if a get_peers has been
   sent to it; the end-game round queries every candidate that is not flagged.  So when a search
   enters its end-game, every node it has heard of has been queried or is queried in that very step,
   and (C04: c04_closed_in_endgame) a search only ever ends through its end-game. *)
From BT Require Import proofs.Refresh_Facts proofs.Termination_Facts proofs.Heard_Facts.
Open Scope N_scope.

(* the queries of one round: one get_peers per node, in order, the k-th message id of the activity
   for the k-th query it sends *)
Theorem c02_round_sends_meaning : forall I own act target k,
  round_sends I own act target k [] = [] /\
  forall h r, round_sends I own act target k (h :: r) =
              OSend (snd h) (get_peers_msg own (tid_bytes (aid_of I act) (mid_of I act k)) target)
              :: round_sends I own act target (S k) r.
Proof. exact round_sends_unfold. Qed.

(* (L1) HEARD => CANDIDATE.  The bookkeeping of an accepted answer: every candidate stays one (same
   distance, node, flag); every node named in the answer is a candidate afterwards, under its XOR
   distance to the target -- it either was one already (then its flag is unchanged) or it is a new
   entry whose flag says whether the node matches one of the iterate slots; nothing else is added;
   and the iterate slots hold nodes of this answer that had not been requested before. *)
Theorem c02_heard_becomes_candidate : forall lk from tid r (v6 : bool) dist_to_beat,
  let nodes := map handle_of (if v6 then r_nodes6 r else r_nodes4 r) in
  let lk' := fst (fst (rr_accept lk from tid r v6 dist_to_beat)) in
  let iterate := snd (fst (rr_accept lk from tid r v6 dist_to_beat)) in
  (forall x, In x (lk_sorted lk) -> In x (lk_sorted lk')) /\
  (forall h, In h nodes ->
     (exists flag, In (N.lxor (lk_target lk) (fst h), h, flag) (lk_sorted lk)) \/
     In (N.lxor (lk_target lk) (fst h), h, match iterate with Some s => slot_matches s h | None => false end)
        (lk_sorted lk')) /\
  (forall x, In x (lk_sorted lk') ->
     In x (lk_sorted lk) \/
     exists h, In h nodes /\
       x = (N.lxor (lk_target lk) (fst h), h, match iterate with Some s => slot_matches s h | None => false end)) /\
  (forall s, iterate = Some s -> forall h, In h (used_slots s) -> In h nodes /\ ~ In h (lk_requested lk)).
Proof. exact rr_accept_heard. Qed.

Theorem c02_accept_keeps_requested : forall lk from tid r v6 dist_to_beat,
  lk_requested (fst (fst (rr_accept lk from tid r v6 dist_to_beat))) = lk_requested lk /\
  lk_target (fst (fst (rr_accept lk from tid r v6 dist_to_beat))) = lk_target lk /\
  lk_endgame (fst (fst (rr_accept lk from tid r v6 dist_to_beat))) = lk_endgame lk.
Proof. exact rr_accept_same. Qed.

(* the flag of a new candidate: the node is in one of the slots -- these are the nodes the following
   round queries (c02_iterate_round_queries_slots) -- or it is the dummy handle (id 0, 0.0.0.0:0) the
   unused slots of the fixed-size array hold, with which the code compares it, too *)
Theorem c02_iterate_flag_meaning : forall slots h,
  slot_matches slots h = true <-> In h (used_slots slots) \/ (In None slots /\ h = unspecified_handle).
Proof. exact slot_matches_iff. Qed.

Theorem c02_iterate_slots_at_most_three : forall cands target,
  (length (used_slots (pick_iterate_slots cands target)) <= iterative_pick)%nat.
Proof. exact pick_iterate_slots_length. Qed.

(* (L2) REQUEST ROUND.  The outputs added are, in order, one get_peers for the target per node,
   addressed to that node, with the next message ids of the search; every node whose send succeeded
   is in the requested set afterwards, together with everything that was in it, and nothing else. *)
Theorem c02_request_round : forall I sendok own now nodes lk c sent,
  let lk' := fst (fst (request_round I sendok own now nodes lk c sent)) in
  let c' := snd (fst (request_round I sendok own now nodes lk c sent)) in
  cx_out c' = rev (round_sends I own (lk_act lk) (lk_target lk) (lk_next lk) (map fst nodes)) ++ cx_out c /\
  cx_sends c' = (cx_sends c + length (map fst nodes))%nat /\
  lk_next lk' = (lk_next lk + length (map fst nodes))%nat /\
  lk_act lk' = lk_act lk /\ lk_target lk' = lk_target lk /\ lk_endgame lk' = lk_endgame lk /\
  lk_sorted lk' = lk_sorted lk /\
  incl (lk_requested lk) (lk_requested lk') /\
  (forall h, In h (lk_requested lk') -> In h (lk_requested lk) \/ In h (map fst nodes)) /\
  (forall i h, nth_error (map fst nodes) i = Some h -> sendok (cx_sends c + i)%nat = true -> In h (lk_requested lk')).
Proof. exact request_round_spec. Qed.

Theorem c02_start_request_round : forall I sendok own now nodes lk c,
  let lk' := fst (start_request_round I sendok own now nodes lk c) in
  let c' := snd (start_request_round I sendok own now nodes lk c) in
  cx_out c' = rev (round_sends I own (lk_act lk) (lk_target lk) (lk_next lk) (map fst nodes)) ++ cx_out c /\
  cx_sends c' = (cx_sends c + length (map fst nodes))%nat /\
  lk_next lk' = (lk_next lk + length (map fst nodes))%nat /\
  lk_act lk' = lk_act lk /\ lk_target lk' = lk_target lk /\ lk_endgame lk' = lk_endgame lk /\
  lk_sorted lk' = lk_sorted lk /\
  incl (lk_requested lk) (lk_requested lk') /\
  (forall h, In h (lk_requested lk') -> In h (lk_requested lk) \/ In h (map fst nodes)) /\
  (forall i h, nth_error (map fst nodes) i = Some h -> sendok (cx_sends c + i)%nat = true -> In h (lk_requested lk')).
Proof. exact start_request_round_spec. Qed.

(* the second half of recv_response (search not in its end-game): the queries sent are exactly one
   per used iterate slot, in slot order, followed -- if nothing is outstanding then -- by the
   end-game round over the candidates not flagged *)
Theorem c02_iterate_round_queries_slots : forall I sendok own now lk2 c0 iterate next_dist,
  lk_endgame lk2 = false ->
  let hs := match iterate with Some s => used_slots s | None => [] end in
  cx_out (snd (rr_continue I sendok own now lk2 c0 iterate next_dist)) =
    (if lk_endgame (fst (rr_continue I sendok own now lk2 c0 iterate next_dist))
     then rev (round_sends I own (lk_act lk2) (lk_target lk2) (S (lk_next lk2 + length hs))
                 (map (fun e => snd (fst e)) (filter (fun e => negb (snd e)) (lk_sorted lk2))))
     else [])
    ++ rev (round_sends I own (lk_act lk2) (lk_target lk2) (lk_next lk2) hs) ++ cx_out c0.
Proof. exact rr_continue_out. Qed.

(* (L3) THE END-GAME ROUND QUERIES EVERYBODY LEFT.  Its outputs are exactly one get_peers to each
   candidate whose flag is false, in list order; the candidates stay the same nodes at the same
   distances in the same order; the search is in its end-game; the requested set is unchanged; and
   if the sends succeed every candidate is flagged afterwards. *)
Theorem c02_endgame_queries_all_unflagged : forall I sendok own now lk c,
  let lk' := fst (start_endgame I sendok own now lk c) in
  cx_out (snd (start_endgame I sendok own now lk c))
    = rev (round_sends I own (lk_act lk) (lk_target lk) (S (lk_next lk))
             (map (fun e => snd (fst e)) (filter (fun e => negb (snd e)) (lk_sorted lk)))) ++ cx_out c /\
  map (fun e => (fst (fst e), snd (fst e))) (lk_sorted lk') = map (fun e => (fst (fst e), snd (fst e))) (lk_sorted lk) /\
  lk_endgame lk' = true /\ lk_target lk' = lk_target lk /\ lk_requested lk' = lk_requested lk /\
  ((forall k, sendok k = true) -> forall e, In e (lk_sorted lk') -> snd e = true).
Proof. exact start_endgame_spec. Qed.

(* (L4) THE INITIAL PICKS.  A new search's candidates are the (at most 8) first good nodes of the
   table enumeration (closest_nodes: C09), kept sorted by distance; the first 4 of them are flagged
   and are exactly the nodes sent a get_peers, in that order; the requested set holds only those,
   and all of them if the sends succeed. *)
Theorem c02_initial_picks : forall I sendok own now act target an c,
  let good := firstn bucket_size
                (filter (fun n => status_eqb (node_status now n) Good) (closest_nodes now (cx_table c) target)) in
  let srt := fold_left (fun l n => insert_sorted l target (nd_id n, nd_addr n) false) good [] in
  let lk' := fst (lookup_new I sendok own now act target an c) in
  let c' := snd (lookup_new I sendok own now act target an c) in
  (forall n, In n good -> In (N.lxor target (nd_id n), (nd_id n, nd_addr n), false) srt) /\
  (forall e, In e srt -> exists n, In n good /\ e = (N.lxor target (nd_id n), (nd_id n, nd_addr n), false)) /\
  lk_sorted lk' = map (fun e => (fst (fst e), snd (fst e), true)) (firstn initial_pick srt) ++ skipn initial_pick srt /\
  cx_out c' = rev (round_sends I own act target 0 (map (fun e => snd (fst e)) (firstn initial_pick srt))) ++ cx_out c /\
  lk_endgame lk' = false /\ lk_target lk' = target /\ lk_act lk' = act /\
  ((forall k, sendok k = true) -> forall e, In e (firstn initial_pick srt) -> In (snd (fst e)) (lk_requested lk')) /\
  (forall h, In h (lk_requested lk') -> exists e, In e (firstn initial_pick srt) /\ h = snd (fst e)).
Proof. exact lookup_new_spec. Qed.

Theorem c02_pick_numbers : bucket_size = 8%nat /\ initial_pick = 4%nat /\ iterative_pick = 3%nat.
Proof. repeat split. Qed.

(* (Q) THE FLAGS ARE TRUTHFUL.  After ANY events (both variants of the refresh and of the handler),
   if no send fails: in every open search that is not in its end-game, every candidate flagged
   "queried" is in the requested set, i.e. a get_peers to it has been sent successfully.
   ADJUSTED: the exception is the dummy handle (id 0, address 0.0.0.0:0).  A candidate with exactly
   that handle can be flagged without having been queried (c02_dummy_handle_caveat below: the unused
   iterate slots hold the dummy handle and `iterate_nodes.iter().any(|(n, _)| n == &node)` compares
   with them too).  No other node is affected. *)
Theorem c02_flags_truthful : forall I sendok cf sr qe, (forall k, sendok k = true) -> forall id t0 evs,
  let s := fst (run I sendok cf sr qe (ns_init id t0) evs) in
  forall lk, In lk (ns_lookups s) -> lk_endgame lk = false ->
  forall d h, In (d, h, true) (lk_sorted lk) -> In h (lk_requested lk) \/ h = unspecified_handle.
Proof. exact heard_run. Qed.

(* ... as an invariant of single events and of the search code *)
Theorem c02_flags_truthful_step : forall I sendok cf sr qe, (forall k, sendok k = true) -> forall now s e,
  (forall lk, In lk (ns_lookups s) -> lk_endgame lk = false ->
     forall d h, In (d, h, true) (lk_sorted lk) -> In h (lk_requested lk) \/ h = unspecified_handle) ->
  (forall lk, In lk (ns_lookups (fst (step I sendok cf sr qe now s e))) -> lk_endgame lk = false ->
     forall d h, In (d, h, true) (lk_sorted lk) -> In h (lk_requested lk) \/ h = unspecified_handle).
Proof. exact step_heard. Qed.

Theorem c02_new_search_flags_truthful : forall I sendok own now, (forall k, sendok k = true) -> forall act target an c,
  forall d h, In (d, h, true) (lk_sorted (fst (lookup_new I sendok own now act target an c))) ->
    In h (lk_requested (fst (lookup_new I sendok own now act target an c))) \/ h = unspecified_handle.
Proof. exact lookup_new_flagged. Qed.

(* (T) ALL HEARD OF ARE QUERIED WHEN THE END-GAME BEGINS.  If no send fails: after any events, let a
   search be open and not in its end-game, and let it be open and in its end-game after the next
   event (a response or a query timeout that leaves nothing outstanding).  Then EVERY candidate of
   the search -- every node it has ever heard of -- is in the requested set (queried in an earlier
   round, or in the iterate round of this very step), or the outputs of this very step contain a
   get_peers for the target addressed to it (the end-game round) -- or it is the dummy handle. *)
Theorem c02_all_heard_queried_at_endgame : forall I sendok cf sr qe, (forall k, sendok k = true) ->
  forall id t0 evs now e lk lk',
  let s := fst (run I sendok cf sr qe (ns_init id t0) evs) in
  In lk (ns_lookups s) -> lk_endgame lk = false ->
  In lk' (ns_lookups (fst (step I sendok cf sr qe now s e))) -> lk_act lk' = lk_act lk -> lk_endgame lk' = true ->
  forall d h flag, In (d, h, flag) (lk_sorted lk') ->
    In h (lk_requested lk') \/ h = unspecified_handle \/
    exists tid, In (OSend (snd h) (get_peers_msg (c_id cf) tid (lk_target lk'))) (snd (step I sendok cf sr qe now s e)).
Proof. exact all_heard_queried_at_endgame. Qed.

(* ... for a single event from any state in which the open searches have distinct activity indices
   (c04_open_distinct_init / _step) and the flags are truthful *)
Theorem c02_all_heard_queried_at_endgame_step : forall I sendok cf sr qe, (forall k, sendok k = true) ->
  forall now s e lk lk',
  (NoDup (map lk_act (ns_lookups s)) /\ forall x, In x (map lk_act (ns_lookups s)) -> (x < ns_next_act s)%nat) ->
  (forall l, In l (ns_lookups s) -> lk_endgame l = false ->
     forall d h, In (d, h, true) (lk_sorted l) -> In h (lk_requested l) \/ h = unspecified_handle) ->
  In lk (ns_lookups s) -> lk_endgame lk = false ->
  In lk' (ns_lookups (fst (step I sendok cf sr qe now s e))) -> lk_act lk' = lk_act lk -> lk_endgame lk' = true ->
  forall d h flag, In (d, h, flag) (lk_sorted lk') ->
    In h (lk_requested lk') \/ h = unspecified_handle \/
    exists tid, In (OSend (snd h) (get_peers_msg (c_id cf) tid (lk_target lk'))) (snd (step I sendok cf sr qe now s e)).
Proof. exact endgame_entry_all_queried. Qed.

(* the same at the level of the search code: an answer resp. a query timeout that makes the search
   enter its end-game ([c] is the node's context when the search code is called) *)
Theorem c02_answer_enters_endgame : forall I sendok own now, (forall k, sendok k = true) -> forall lk c from tid r v6,
  (lk_endgame lk = false ->
     forall d h, In (d, h, true) (lk_sorted lk) -> In h (lk_requested lk) \/ h = unspecified_handle) ->
  let lk' := fst (recv_response I sendok own now lk c from tid r v6) in
  (lk_endgame lk' = false ->
     forall d h, In (d, h, true) (lk_sorted lk') -> In h (lk_requested lk') \/ h = unspecified_handle) /\
  (lk_endgame lk = false -> lk_endgame lk' = true ->
     forall d h flag, In (d, h, flag) (lk_sorted lk') ->
       In h (lk_requested lk') \/ h = unspecified_handle \/
       exists t, In (OSend (snd h) (get_peers_msg own t (lk_target lk')))
                    (cx_out (snd (recv_response I sendok own now lk c from tid r v6)))).
Proof. exact recv_response_heard. Qed.

Theorem c02_timeout_enters_endgame : forall I sendok own now lk c tid,
  (lk_endgame lk = false ->
     forall d h, In (d, h, true) (lk_sorted lk) -> In h (lk_requested lk) \/ h = unspecified_handle) ->
  let lk' := fst (recv_timeout I sendok own now lk c tid) in
  (lk_endgame lk' = false ->
     forall d h, In (d, h, true) (lk_sorted lk') -> In h (lk_requested lk') \/ h = unspecified_handle) /\
  (lk_endgame lk = false -> lk_endgame lk' = true ->
     forall d h flag, In (d, h, flag) (lk_sorted lk') ->
       In h (lk_requested lk') \/ h = unspecified_handle \/
       exists t, In (OSend (snd h) (get_peers_msg own t (lk_target lk')))
                    (cx_out (snd (recv_timeout I sendok own now lk c tid)))).
Proof. exact recv_timeout_heard. Qed.

(* a search is never in its end-game right after the step that starts it: the step in which it
   enters its end-game is always a later one, to which the theorems above apply ... *)
Theorem c02_started_not_endgame : forall I sendok cf sr qe now s e lk',
  In lk' (ns_lookups (fst (step I sendok cf sr qe now s e))) ->
  ~ In (lk_act lk') (map lk_act (ns_lookups s)) -> lk_endgame lk' = false.
Proof. exact started_not_endgame. Qed.

(* ... and a search that has nothing outstanding right after TableLookup::new -- which is exactly
   when handle_start_lookup finishes it at once, without an end-game -- has no candidates at all *)
Theorem c02_immediate_end_no_candidates : forall I sendok own now act target an c, (forall k, sendok k = true) ->
  lk_active (fst (lookup_new I sendok own now act target an c)) = [] ->
  lk_sorted (fst (lookup_new I sendok own now act target an c)) = [].
Proof. exact lookup_new_immediate_empty. Qed.

Print Assumptions c02_round_sends_meaning.
Print Assumptions c02_heard_becomes_candidate.
Print Assumptions c02_accept_keeps_requested.
Print Assumptions c02_iterate_flag_meaning.
Print Assumptions c02_iterate_slots_at_most_three.
Print Assumptions c02_request_round.
Print Assumptions c02_start_request_round.
Print Assumptions c02_iterate_round_queries_slots.
Print Assumptions c02_endgame_queries_all_unflagged.
Print Assumptions c02_initial_picks.
Print Assumptions c02_pick_numbers.
Print Assumptions c02_flags_truthful.
Print Assumptions c02_flags_truthful_step.
Print Assumptions c02_new_search_flags_truthful.
Print Assumptions c02_all_heard_queried_at_endgame.
Print Assumptions c02_all_heard_queried_at_endgame_step.
Print Assumptions c02_answer_enters_endgame.
Print Assumptions c02_timeout_enters_endgame.
Print Assumptions c02_started_not_endgame.
Print Assumptions c02_immediate_end_no_candidates.

(* non-vacuity.  A search for 77 with two contacts A and B.  (With 3 iterate slots an answer naming
   only two new nodes has both queried in the iterate round, so the answer names four.)  A answers
   after 0.1 s naming C, D, E (distances 2, 16, 64 -- closer) and F (farther than A); B stays silent.
   Initial round: B and A.  Iterate round, in the step that handles A's answer: C, D, E -- F becomes
   a candidate with flag false.  B's, C's, D's, E's timeouts fire; the last one leaves nothing
   outstanding: the search enters its end-game, and that very step queries F.  All six nodes the
   search has heard of have been queried when the end-game timer ends it at 5.1 s. *)
Example c02_heard_all_queried :
  let I := mkIds (fun k => N.of_nat k + 100)%N (fun k n => (N.of_nat n mod 2 ^ 24)%N) in
  let cf := mkCfg 5 false false None in
  let ndA := mkAddr false 167772162 7001 in let ndB := mkAddr false 167772163 7002 in
  let ndC := mkAddr false 167772164 7003 in let ndD := mkAddr false 167772165 7004 in
  let ndE := mkAddr false 167772166 7005 in let ndF := mkAddr false 167772167 7006 in
  let evs := [(0, EvBootState BBootstrapped);
              (1000000000, EvBootTable (2 ^ 159)%N ndA []); (1000000000, EvBootTable (2 ^ 158)%N ndB []);
              (2000000000, EvStartLookup 77%N false);
              (2100000000, EvMsg ndA (mkMsg (tid_bytes 102 1)
                 (Resp (mkResp (2 ^ 159)%N [] [mkNodeh 79%N ndC; mkNodeh 93%N ndD; mkNodeh 13%N ndE;
                                                 mkNodeh (3 * 2 ^ 158)%N ndF] [] None))));
              (3500000000, EvTimer); (3600000000, EvTimer); (3600000000, EvTimer); (3600000000, EvTimer);
              (5100000000, EvTimer)]%Z in
  let sts := states I (fun _ => true) cf true true (ns_init 5 0) evs in
  let outs := snd (run I (fun _ => true) cf true true (ns_init 5 0) evs) in
  let q a k := OSend a (mkMsg (tid_bytes 102 k) (Req (GetPeers 5 77 None))) in
  (* the outputs from the start of the search on *)
  skipn 3 outs = [[q ndB 0; q ndA 1]; [q ndC 2; q ndD 3; q ndE 4]; []; []; []; [q ndF 6]; [OStreamEnd 2%nat]] /\
  (* the search after each of these events: in end-game?, the candidates (port, flag) in list order,
     the ports of the requested set *)
  map (fun s => map (fun lk => (lk_endgame lk, map (fun e => (a_port (snd (snd (fst e))), snd e)) (lk_sorted lk),
                                map (fun h => a_port (snd h)) (lk_requested lk))) (ns_lookups s)) (skipn 3 sts) =
    [[(false, [(7002, true); (7001, true)], [7001; 7002])];
     [(false, [(7003, true); (7004, true); (7005, true); (7002, true); (7001, true); (7006, false)], [7005; 7004; 7003; 7001; 7002])];
     [(false, [(7003, true); (7004, true); (7005, true); (7002, true); (7001, true); (7006, false)], [7005; 7004; 7003; 7001; 7002])];
     [(false, [(7003, true); (7004, true); (7005, true); (7002, true); (7001, true); (7006, false)], [7005; 7004; 7003; 7001; 7002])];
     [(false, [(7003, true); (7004, true); (7005, true); (7002, true); (7001, true); (7006, false)], [7005; 7004; 7003; 7001; 7002])];
     [(true, [(7003, true); (7004, true); (7005, true); (7002, true); (7001, true); (7006, true)], [7005; 7004; 7003; 7001; 7002])];
     []].
Proof. vm_compute. split; reflexivity. Qed.

(* why (Q) and (T) except the dummy handle: A's answer names the node (id 0, 0.0.0.0:0) and then a
   closer node C.  The dummy is put into the first slot, C replaces it there, two slots stay unused;
   the dummy now "matches" an unused slot, so it becomes a candidate flagged as queried -- but it is
   not in a slot, no query is ever sent to it, and the end-game round skips it. *)
Example c02_dummy_handle_caveat :
  let I := mkIds (fun k => N.of_nat k + 100)%N (fun k n => (N.of_nat n mod 2 ^ 24)%N) in
  let cf := mkCfg 5 false false None in
  let ndA := mkAddr false 167772162 7001 in let ndB := mkAddr false 167772163 7002 in
  let ndC := mkAddr false 167772164 7003 in
  let evs := [(0, EvBootState BBootstrapped);
              (1000000000, EvBootTable (2 ^ 159)%N ndA []); (1000000000, EvBootTable (2 ^ 158)%N ndB []);
              (2000000000, EvStartLookup 77%N false);
              (2100000000, EvMsg ndA (mkMsg (tid_bytes 102 1)
                 (Resp (mkResp (2 ^ 159)%N [] [mkNodeh 0%N (mkAddr false 0 0); mkNodeh 79%N ndC] [] None))));
              (3500000000, EvTimer); (3600000000, EvTimer); (5100000000, EvTimer)]%Z in
  let sts := states I (fun _ => true) cf true true (ns_init 5 0) evs in
  let outs := snd (run I (fun _ => true) cf true true (ns_init 5 0) evs) in
  let q a k := OSend a (mkMsg (tid_bytes 102 k) (Req (GetPeers 5 77 None))) in
  skipn 3 outs = [[q ndB 0; q ndA 1]; [q ndC 2]; []; []; [OStreamEnd 2%nat]] /\
  map (fun s => map (fun lk => (lk_endgame lk, map (fun e => (a_port (snd (snd (fst e))), snd e)) (lk_sorted lk),
                                map (fun h => a_port (snd h)) (lk_requested lk))) (ns_lookups s)) (skipn 4 sts) =
    [[(false, [(7003, true); (0, true); (7002, true); (7001, true)], [7003; 7001; 7002])];
     [(false, [(7003, true); (0, true); (7002, true); (7001, true)], [7003; 7001; 7002])];
     [(true, [(7003, true); (0, true); (7002, true); (7001, true)], [7003; 7001; 7002])];
     []].
Proof. vm_compute. split; reflexivity. Qed.
