(* C20 -- ids derived from an IP address satisfy BEP42.  Property theorems only. *)
From BT Require Import model.Prelude model.Bep42 proofs.Bep42_Facts.

(* For every IPv4/IPv6 address and every value of from_ip's three random draws
   the produced id passes the BEP42 check for that address. *)
Theorem c20_from_ip_valid :
  forall (a : ipaddr) (r1 r2 : N) (rest : bytes),
    ip_wf a = true -> r1 < 256 -> r2 < 256 ->
    length rest = 16%nat -> bytes_ok rest = true ->
    bep42_valid a (from_ip a r1 r2 rest) = true.
Proof. exact from_ip_valid. Qed.
Print Assumptions c20_from_ip_valid.

(* The model's CRC32-C and from_ip reproduce the five published BEP42 vectors
   (a test of the model, not the theorem). *)
Example c20_vectors :
  forallb (fun '(ip, r, exp3) =>
        let id := from_ip (IPv4 ip) r 0 (repeat 0 16) in
        bytes_eqb (firstn 2 id) (firstn 2 exp3)
        && (N.land (nth 2 id 0) 0xf8 =? N.land (nth 2 exp3 0) 0xf8)
        && bep42_valid (IPv4 ip) id)
      [ ([124;31;75;21], 1, [0x5f;0xbf;0xbf]);
        ([21;75;31;124], 86, [0x5a;0x3c;0xe9]);
        ([65;23;51;170], 22, [0xa5;0xd4;0x32]);
        ([84;124;73;14], 65, [0x1b;0x03;0x21]);
        ([43;213;53;83], 90, [0xe5;0x6f;0x6c]) ]
  = true.
Proof. vm_compute. reflexivity. Qed.

(* non-vacuity: the hypotheses are satisfiable, for both families *)
Example c20_nonvacuous :
  ip_wf (IPv6 (repeat 17 16)) = true /\ ip_wf (IPv4 [10;0;0;1]) = true
  /\ bytes_ok (repeat 255 16) = true /\ length (repeat 255 16) = 16%nat.
Proof. vm_compute. repeat split. Qed.
