(* C10 -- contacts are classified good / questionable / bad per BEP5 timing.
   Property theorems only.  A contact's slot is driven by four kinds of events (cstep): an
   accepted answer, a hearsay mention, a query received (marked only while the contact is
   pingable), a query sent (marked only while pingable). *)
From BT Require Import model.Prelude model.Table proofs.Table_Facts.
Open Scope Z_scope.

(* closed form of the classification *)
Theorem c10_status_good_iff : forall now n,
  node_status now n = Good <->
  exists tr, last_response n = Some tr /\
    (recent now tr \/
     ((refresh_requests n < 2)%nat /\ exists tq, last_request n = Some tq /\ recent now tq)).
Proof. exact status_good_iff. Qed.

(* for every event history of a contact (accepted by an answer or a hearsay mention, then any
   interleaving of answers, mentions, queries received and queries sent at non-decreasing times):
   it is reported good at [now] only if it answered, or -- being known -- sent a query, less than
   15 minutes before [now]; hence after 15 idle minutes it is not reported good *)
Theorem c10_good_only_if_recent : forall id a e0 evs now,
  snd e0 = CAnswer \/ snd e0 = CHearsay ->
  ctimes_from (fst e0) evs -> last_time (fst e0) evs <= now ->
  node_status now (fold_left cstep evs (enroll id a e0)) = Good ->
  exists t, (In (t, CAnswer) (e0 :: evs) \/ In (t, CQueryRecv) (e0 :: evs)) /\ t <= now /\ now - t < 900000000000.
Proof. exact good_only_if_recent. Qed.

(* any accepted answer makes the contact good immediately, whatever its state was *)
Theorem c10_answer_makes_good : forall now n,
  node_status now (cstep n (now, CAnswer)) = Good.
Proof. intros. unfold cstep. cbn [fst snd]. apply update_good_status. Qed.

(* a contact known only by hearsay is questionable *)
Theorem c10_hearsay_only_questionable : forall id a t0 evs now,
  ctimes_from t0 evs -> (forall e, In e evs -> snd e = CHearsay) -> last_time t0 evs <= now ->
  node_status now (fold_left cstep evs (as_questionable id a t0)) = Questionable.
Proof. exact hearsay_only_questionable. Qed.

(* not good + two consecutive queries left unanswered: bad (absent from contacts, from node lists
   and from find_node_mut, so queries it sends later do not resurrect it) for as long as it
   neither answers nor is named again by another node *)
Theorem c10_two_unanswered_stays_bad : forall n t1 t2 post now,
  t1 <= t2 ->
  node_status t1 n <> Good -> is_pingable t1 n = true ->
  node_status t2 (cstep n (t1, CQuerySent)) <> Good -> is_pingable t2 (cstep n (t1, CQuerySent)) = true ->
  ctimes_from t2 post -> (forall e, In e post -> snd e = CQueryRecv \/ snd e = CQuerySent) ->
  last_time t2 post <= now ->
  node_status now (fold_left cstep post (cstep (cstep n (t1, CQuerySent)) (t2, CQuerySent))) = Bad.
Proof. exact two_unanswered_stays_bad. Qed.

Print Assumptions c10_status_good_iff.
Print Assumptions c10_good_only_if_recent.
Print Assumptions c10_answer_makes_good.
Print Assumptions c10_hearsay_only_questionable.
Print Assumptions c10_two_unanswered_stays_bad.

(* KNOWN FINDING (F-C10): the property says such a contact is not reported "until it answers
   again", but a mere hearsay mention by a third node re-accepts it as questionable: *)
Example c10_renamed_after_bad_refuted :
  let a := mkAddr false 167772161%N 6881%N in
  let n0 := as_questionable 7%N a 0 in
  let n2 := fold_left cstep [(1000, CQuerySent); (2000, CQuerySent)] n0 in
  node_status 3000 n2 = Bad /\
  node_status 4000 (cstep n2 (4000, CHearsay)) = Questionable.
Proof. vm_compute. split; reflexivity. Qed.

(* non-vacuity of the history theorems *)
Example c10_nonvacuous :
  let a := mkAddr false 167772161%N 6881%N in
  let evs := [(10, CQuerySent); (900000000005, CQueryRecv); (900000000006, CHearsay)] in
  ctimes_from 5 evs /\
  node_status 900000000010 (fold_left cstep evs (enroll 7%N a (5, CAnswer))) = Good /\
  node_status 1800000000006 (fold_left cstep evs (enroll 7%N a (5, CAnswer))) = Questionable.
Proof. vm_compute. repeat split; discriminate. Qed.
