(* C10 -- contacts are classified good / questionable / bad per BEP5 timing.
   Property theorems only.  A contact's slot is driven by four kinds of events (cstep): an
   accepted answer, a hearsay mention, a query received (marked only while the contact is
   pingable), a query sent (marked only while pingable). *)
From BT Require Import model.Prelude model.Table proofs.Table_Facts.
Open Scope Z_scope.

(* closed form of the classification *)
Theorem c10_status_good_iff : forall now n,
  node_status now n = Good <->
  exists tr, last_response n = Some tr /\
    (recent now tr \/
     ((refresh_requests n < 2)%nat /\ exists tq, last_request n = Some tq /\ recent now tq)).
Proof. exact status_good_iff. Qed.

(* for every event history of a contact (accepted by an answer or a hearsay mention, then any
   interleaving of answers, mentions, queries received and queries sent at non-decreasing times):
   it is reported good at [now] only if it answered, or -- being known -- sent a query, less than
   15 minutes before [now]; hence after 15 idle minutes it is not reported good *)
Theorem c10_good_only_if_recent : forall id a e0 evs now,
  snd e0 = CAnswer \/ snd e0 = CHearsay ->
  ctimes_from (fst e0) evs -> last_time (fst e0) evs <= now ->
  node_status now (fold_left cstep evs (enroll id a e0)) = Good ->
  exists t, (In (t, CAnswer) (e0 :: evs) \/ In (t, CQueryRecv) (e0 :: evs)) /\ t <= now /\ now - t < 900000000000.
Proof. exact good_only_if_recent. Qed.

(* any accepted answer makes the contact good immediately, whatever its state was *)
Theorem c10_answer_makes_good : forall now n,
  node_status now (cstep n (now, CAnswer)) = Good.
Proof. intros. unfold cstep. cbn [fst snd]. apply update_good_status. Qed.

(* a contact known only by hearsay is questionable *)
Theorem c10_hearsay_only_questionable : forall id a t0 evs now,
  ctimes_from t0 evs -> (forall e, In e evs -> snd e = CHearsay) -> last_time t0 evs <= now ->
  node_status now (fold_left cstep evs (as_questionable id a t0)) = Questionable.
Proof. exact hearsay_only_questionable. Qed.

(* not good + two consecutive queries left unanswered: bad (absent from contacts, from node lists
   and from find_node_mut, so queries it sends later do not resurrect it) for as long as it
   neither answers nor is named again by another node *)
Theorem c10_two_unanswered_stays_bad : forall n t1 t2 post now,
  t1 <= t2 ->
  node_status t1 n <> Good -> is_pingable t1 n = true ->
  node_status t2 (cstep n (t1, CQuerySent)) <> Good -> is_pingable t2 (cstep n (t1, CQuerySent)) = true ->
  ctimes_from t2 post -> (forall e, In e post -> snd e = CQueryRecv \/ snd e = CQuerySent) ->
  last_time t2 post <= now ->
  node_status now (fold_left cstep post (cstep (cstep n (t1, CQuerySent)) (t2, CQuerySent))) = Bad.
Proof. exact two_unanswered_stays_bad. Qed.

Print Assumptions c10_status_good_iff.
Print Assumptions c10_good_only_if_recent.
Print Assumptions c10_answer_makes_good.
Print Assumptions c10_hearsay_only_questionable.
Print Assumptions c10_two_unanswered_stays_bad.

(* KNOWN FINDING (F-C10): the property says such a contact is not reported "until it answers
   again", but a mere hearsay mention by a third node re-accepts it as questionable: *)
Example c10_renamed_after_bad_refuted :
  let a := mkAddr false 167772161%N 6881%N in
  let n0 := as_questionable 7%N a 0 in
  let n2 := fold_left cstep [(1000, CQuerySent); (2000, CQuerySent)] n0 in
  node_status 3000 n2 = Bad /\
  node_status 4000 (cstep n2 (4000, CHearsay)) = Questionable.
Proof. vm_compute. split; reflexivity. Qed.

(* non-vacuity of the history theorems *)
Example c10_nonvacuous :
  let a := mkAddr false 167772161%N 6881%N in
  let evs := [(10, CQuerySent); (900000000005, CQueryRecv); (900000000006, CHearsay)] in
  ctimes_from 5 evs /\
  node_status 900000000010 (fold_left cstep evs (enroll 7%N a (5, CAnswer))) = Good /\
  node_status 1800000000006 (fold_left cstep evs (enroll 7%N a (5, CAnswer))) = Questionable.
Proof. vm_compute. repeat split; discriminate. Qed.

(* ------------------------------------------------------------------------------------------
   The executable checker c10_ok (run/Run_TableCheck.v), which is what is evaluated on the
   dumps of the REAL routing table, versus the model the theorems above are about. *)
From BT Require Import run.Run_Table run.Run_TableCheck proofs.Checker_Table_Facts.

(* completeness on the model: on the model's own observations the checker never raises an alarm,
   for every local id and every script in which the router addresses come first, no offered or
   named address is the placeholder 127.0.0.1:0 of empty slots, and the clock readings never go
   back (what the generators emit).  The checker's clause "two unanswered queries while not good:
   not reported" treats a hearsay mention as a reset -- the known finding F-C10 above is thereby
   excluded from the clause, and with it the model passes everything. *)
Theorem c10_checker_accepts_model : forall (local : N) (ops : list rtop),
  (routers_first ops && forallb rtop_okb ops) && times_mono ops = true ->
  c10_ok ops (model_obs local ops) = None.
Proof. exact c10_ok_model_silent. Qed.

(* soundness: whenever the checker accepts a trace, (1) at every dump each listed contact that is
   reported good has an answer, or a query received while it was known, less than 15 minutes old in
   the history of the operations so far (c10_hist: newest first; kind 0 answer, 1 hearsay, 2 query
   received while known, 3 query sent while known), and no listed contact has two unanswered
   queries (two_unanswered: the checker's own definition of that clause); (2) a contact whose
   answer was just offered is, if listed at that instant, listed as good *)
Theorem c10_checker_sound : forall (ops : list rtop) (obs : list rtobs),
  c10_ok ops obs = None ->
  (forall k t d, nth_error ops k = Some (TDump t) -> nth_error obs k = Some (ObDump d) ->
     forall s, In s (live_of d) ->
       (st_of s = 2%N ->
          exists e, In e (c10_hist ops obs k)
                    /\ fst (fst (fst e)) = id_of s /\ snd (fst (fst e)) = addr_of s
                    /\ (ev_kind e = 0%N \/ ev_kind e = 2%N)
                    /\ t - ev_time e < min15)
       /\ two_unanswered (c10_hist ops obs k) (id_of s) (addr_of s) = false)
  /\ (forall k t id a d,
        nth_error ops k = Some (TOffer t true id a) -> nth_error ops (S k) = Some (TDump t) ->
        nth_error obs (S k) = Some (ObDump d) -> (k < length obs)%nat ->
        forall s, In s (live_of d) -> hd_s s = (id, a) -> st_of s = 2%N).
Proof. exact c10_ok_sound. Qed.

Print Assumptions c10_checker_accepts_model.
Print Assumptions c10_checker_sound.
