(* C01 -- the server contract: a peer that asks for peers, announces with the token it was
   given (same IP, within 10 minutes) is not refused for its token, and -- if acknowledged -- is
   returned to every requester of that info-hash (same address family) for the next 24 hours,
   and is no longer returned after 24 hours unless it announced again.
   Property theorems only.  A history is an arbitrary list of query events
   (time, source, transaction id, query) with non-decreasing time stamps, handled one after the
   other by [handle_query] (model/Handler.v) starting from any routing table, a fresh token
   store and an empty announce store:
      pre ++ get_peers :: mid ++ announce_peer :: mid2 ++ get_peers :: post
   with arbitrary pre/mid/mid2/post (any interleaving of queries from any sources). *)
From BT Require Import model.Prelude gen.Consts model.Compact model.Krpc model.Token model.Storage model.Table model.Txn model.Handler.
From BT Require Import proofs.Token_Facts proofs.Storage_Facts proofs.Handler_Facts proofs.Server_Facts.
Open Scope Z_scope.

(* the token store of a serving node sees exactly the projected checkouts / checkins *)
Theorem c01_run_token_projection : forall cf, c_read_only cf = false ->
  forall qs s, s_tok (fst (qrun cf s qs)) = fst (trun (s_tok s) (tok_ops qs)).
Proof. exact qrun_tok. Qed.

(* the announce store of a serving node sees exactly the projected finds / accepted adds *)
Theorem c01_run_store_projection : forall cf, c_read_only cf = false ->
  forall qs s, s_sto (fst (qrun cf s qs)) = fst (srun (s_sto s) (sto_ops cf s qs)).
Proof. exact qrun_sto. Qed.

(* the projections of a time-ordered history are time-ordered *)
Theorem c01_token_projection_times : forall qs t0, qtimes_from t0 qs -> ttimes_from t0 (tok_ops qs).
Proof. exact qtimes_tok. Qed.

Theorem c01_store_projection_times : forall cf qs s t0, qtimes_from t0 qs -> times_from t0 (sto_ops cf s qs).
Proof. exact qtimes_sto. Qed.

(* the 20 token bytes determine the symbolic token (secrets below 2^24) *)
Theorem c01_token_round_trip : forall ip s,
  (N.of_nat s < 2 ^ 24)%N -> tok_of_bytes ip (tok_bytes (TSha ip s)) = TSha ip s.
Proof. exact tok_round_trip. Qed.

(* store level: an accepted announce is returned by every lookup of its info-hash less than 24 h
   later, whatever happens in between; a pair not announced again is not returned 24 h later *)
Theorem c01_announce_then_find : forall pre mid post t0 t2 t3 ih a,
  let ops := pre ++ (t2, SAdd (ih, a)) :: mid ++ (t3, SFind ih) :: post in
  times_from t0 ops ->
  exists opre b omid l opost,
    snd (srun empty_store ops) = opre ++ OAdd b :: omid ++ OFind l :: opost /\
    length opre = length pre /\ length omid = length mid /\
    (b = true -> t3 - t2 < 86400000000000 -> In a l) /\
    ((forall tt, ~ In (tt, SAdd (ih, a)) mid) -> 86400000000000 <= t3 - t2 -> ~ In a l).
Proof. exact announce_then_find. Qed.

(* the contract, for every interleaving.  [k] is the symbolic token the token store issued for
   the first get_peers (A-SHA: it stands for the SHA-1 digest); its encoding is the token of the
   reply.  (a) the announce is not answered with error 203; (b) if it is acknowledged, a lookup
   less than 24 h later from the same address family returns the contact -- or a full reply;
   (c) 24 h later the contact is not returned unless the pair was announced again. *)
Theorem c01_server_contract :
  forall (cf : cfg) (tbl : table) (t0 : Z) (pre mid mid2 post : list qev)
         (t1 : Z) (src1 : addr) (tid1 : bytes) (id1 ih1 : N) (w1 : option want)
         (t2 : Z) (src2 : addr) (tid2 : bytes) (id2 ih : N) (port : option N) (tokb : bytes)
         (t3 : Z) (src3 : addr) (tid3 : bytes) (id3 : N) (w3 : option want)
         (r : response) (k : token),
  let qs := pre ++ (t1, src1, tid1, GetPeers id1 ih1 w1) :: mid ++
            (t2, src2, tid2, AnnouncePeer id2 ih port tokb) :: mid2 ++
            (t3, src3, tid3, GetPeers id3 ih w3) :: post in
  let replies := snd (qrun cf (tbl, tinit t0, empty_store) qs) in
  let caddr := match port with None => src2 | Some p => mkAddr (a_v6 src2) (a_ip src2) p end in
  let ack := Some (mkMsg tid2 (Resp (empty_resp (c_id cf)))) in
  let ra := nth (length pre + S (length mid)) replies None in
  let rf := nth (length pre + S (length mid) + S (length mid2)) replies None in
  c_read_only cf = false ->
  qtimes_from t0 qs ->
  ip_of src2 = ip_of src1 ->
  nth (length pre) replies None = Some (mkMsg tid1 (Resp r)) ->
  r_token r = Some tokb ->
  out_at t0 (tok_ops qs) (length (tok_ops pre)) = OTok k ->
  tok_of_bytes (ip_of src1) (tok_bytes k) = k ->
  t2 <= t1 + 600000000000 ->
  (ra = ack \/ ra = Some (mkMsg tid2 (Err 202%N err_text_full))) /\
  exists r3, rf = Some (mkMsg tid3 (Resp r3)) /\
    (ra = ack -> a_v6 src3 = a_v6 src2 -> t3 - t2 < 86400000000000 ->
       In caddr (r_values r3) \/ length (r_values r3) = max_values (length tid3) (a_v6 src3)) /\
    ((forall e, In e mid2 -> announce_item e <> Some (ih, caddr)) -> 86400000000000 <= t3 - t2 ->
       ~ In caddr (r_values r3)).
Proof. exact server_contract. Qed.

(* the same contract stated on observable data only: when fewer than 2^23 - 2 queries precede the
   get_peers, the secret counter fits the 3-byte field of the token encoding *)
Theorem c01_server_contract_bounded :
  forall (cf : cfg) (tbl : table) (t0 : Z) (pre mid mid2 post : list qev)
         (t1 : Z) (src1 : addr) (tid1 : bytes) (id1 ih1 : N) (w1 : option want)
         (t2 : Z) (src2 : addr) (tid2 : bytes) (id2 ih : N) (port : option N) (tokb : bytes)
         (t3 : Z) (src3 : addr) (tid3 : bytes) (id3 : N) (w3 : option want)
         (r : response),
  let qs := pre ++ (t1, src1, tid1, GetPeers id1 ih1 w1) :: mid ++
            (t2, src2, tid2, AnnouncePeer id2 ih port tokb) :: mid2 ++
            (t3, src3, tid3, GetPeers id3 ih w3) :: post in
  let replies := snd (qrun cf (tbl, tinit t0, empty_store) qs) in
  let caddr := match port with None => src2 | Some p => mkAddr (a_v6 src2) (a_ip src2) p end in
  let ack := Some (mkMsg tid2 (Resp (empty_resp (c_id cf)))) in
  let ra := nth (length pre + S (length mid)) replies None in
  let rf := nth (length pre + S (length mid) + S (length mid2)) replies None in
  c_read_only cf = false ->
  qtimes_from t0 qs ->
  ip_of src2 = ip_of src1 ->
  nth (length pre) replies None = Some (mkMsg tid1 (Resp r)) ->
  r_token r = Some tokb ->
  (N.of_nat (length pre) < 8388606)%N ->
  t2 <= t1 + 600000000000 ->
  (ra = ack \/ ra = Some (mkMsg tid2 (Err 202%N err_text_full))) /\
  exists r3, rf = Some (mkMsg tid3 (Resp r3)) /\
    (ra = ack -> a_v6 src3 = a_v6 src2 -> t3 - t2 < 86400000000000 ->
       In caddr (r_values r3) \/ length (r_values r3) = max_values (length tid3) (a_v6 src3)) /\
    ((forall e, In e mid2 -> announce_item e <> Some (ih, caddr)) -> 86400000000000 <= t3 - t2 ->
       ~ In caddr (r_values r3)).
Proof. exact server_contract_bounded. Qed.

Print Assumptions c01_run_token_projection.
Print Assumptions c01_run_store_projection.
Print Assumptions c01_token_projection_times.
Print Assumptions c01_store_projection_times.
Print Assumptions c01_token_round_trip.
Print Assumptions c01_announce_then_find.
Print Assumptions c01_server_contract.
Print Assumptions c01_server_contract_bounded.

(* non-vacuity: a serving node with an empty table.  A ping and a foreign get_peers surround the
   issue of the token; the announce (explicit port) arrives 10 ns later and is acknowledged; a
   lookup from a third IP of the same family 10 ns after the announce returns the contact; a
   lookup 24 h + 1 ns after the announce does not.  All hypotheses of the contract hold. *)
Example c01_nonvacuous :
  let cf := mkCfg 5 false false None in
  let src := mkAddr false 167772161 4000 in
  let other := mkAddr false 167772162 5000 in
  let src3 := mkAddr false 167772163 6881 in
  let k := TSha (ip_of src) 0 in
  let pre := [(5, other, [8]%N, Ping 3)] in
  let e1 := (10, src, [1; 2]%N, GetPeers 9 77 None) in
  let mid := [(15, other, [7]%N, GetPeers 3 77 None)] in
  let e2 := (20, src, [3]%N, AnnouncePeer 9 77 (Some 6000%N) (tok_bytes k)) in
  let mid2 := [(25, other, [9]%N, FindNode 3 4 None)] in
  let e3 := (30, src3, [4]%N, GetPeers 8 77 None) in
  let e4 := (86400000000021, src3, [5]%N, GetPeers 8 77 None) in
  let qs := pre ++ e1 :: mid ++ e2 :: mid2 ++ e3 :: [e4] in
  let replies := snd (qrun cf (new_table 5, tinit 0, empty_store) qs) in
  let caddr := mkAddr false 167772161 6000 in
  (* the hypotheses of the contract *)
  c_read_only cf = false /\
  qtimes_from 0 qs /\
  ip_of src = ip_of src /\
  nth (length pre) replies None = Some (mkMsg [1; 2]%N (Resp (mkResp 5 [] [] [] (Some (tok_bytes k))))) /\
  out_at 0 (tok_ops qs) (length (tok_ops pre)) = OTok k /\
  tok_of_bytes (ip_of src) (tok_bytes k) = k /\
  20 <= 10 + 600000000000 /\
  (* (a) acknowledged *)
  nth (length pre + S (length mid)) replies None = Some (mkMsg [3]%N (Resp (empty_resp 5))) /\
  (* (b) found less than 24 h later, by a requester of the same family *)
  a_v6 src3 = a_v6 src /\ 30 - 20 < 86400000000000 /\
  nth (length pre + S (length mid) + S (length mid2)) replies None
    = Some (mkMsg [4]%N (Resp (mkResp 5 [caddr] [] [] (Some (tok_bytes (TSha (ip_of src3) 0)))))) /\
  (* (c) gone 24 h later: the same history read with the last get_peers as the lookup *)
  map announce_item (mid2 ++ [e3]) = [None; None] /\ 86400000000000 <= 86400000000021 - 20 /\
  nth (length pre + S (length mid) + S (length (mid2 ++ [e3]))) replies None
    = Some (mkMsg [5]%N (Resp (mkResp 5 [] [] [] (Some (tok_bytes (TSha (ip_of src3) 3)))))).
Proof. vm_compute. repeat split; discriminate. Qed.
