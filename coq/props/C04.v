(* C04 -- every search ends, neither early nor never.  Property theorems only.
   Proved here: the timer discipline the termination argument rests on, and immediate completion.
   The quantitative bounds (3 s under silence; 1.5 s per distinct node + 3 s; no close while a query
   is younger than 1.5 s) are checked on every simulated run of the real node by c04's checker and by
   trace validation of the model -- see the level note (partial). *)
From BT Require Import model.Prelude model.Compact model.Krpc model.Token model.Storage model.Table model.Txn model.Handler.
From BT Require Import proofs.Handler_Facts.
Open Scope Z_scope.

(* the timer fires entries in (deadline, id) order: the entry it yields is in the queue and no
   queued entry is strictly earlier; what remains is the queue without exactly that entry *)
Theorem c04_timer_fires_in_order : forall tm e tm',
  pop_timer tm = Some (e, tm') ->
  In e (tm_entries tm) /\ (forall x, In x (tm_entries tm) -> te_lt x e = false) /\
  tm' = cancel (te_deadline e, te_id e) tm.
Proof. exact pop_timer_least. Qed.

Theorem c04_cancel_removes_exactly : forall key tm x,
  In x (tm_entries (cancel key tm)) <-> In x (tm_entries tm) /\ key_eqb (te_deadline x, te_id x) key = false.
Proof. exact cancel_spec. Qed.

(* a search on a node that knows no good node closes in the step that starts it (no query sent) *)
Theorem c04_immediate_without_good_node : forall I sendok cf now s ih an,
  filter (fun n => status_eqb (node_status now n) Good) (closest_nodes now (ns_table s) ih) = [] ->
  snd (start_lookup I sendok cf now s ih an) = [OStreamEnd (ns_next_act s)] /\
  ns_lookups (fst (start_lookup I sendok cf now s ih an)) = ns_lookups s.
Proof. exact no_good_node_immediate. Qed.

(* a search produces a stream end only through recv_finished, and every event other than a
   response or a query is quiet: it can only send queries, end streams, notify or refresh *)
Theorem c04_other_events_quiet : forall I sendok cf sr qe now s e,
  is_query_event e = false -> is_response_event e = false ->
  forallb quiet (snd (step I sendok cf sr qe now s e)) = true.
Proof. exact step_quiet. Qed.

Print Assumptions c04_timer_fires_in_order.
Print Assumptions c04_cancel_removes_exactly.
Print Assumptions c04_immediate_without_good_node.
Print Assumptions c04_other_events_quiet.

(* non-vacuity, and the silent case in the model: one good contact that never answers --
   query at 2 s, its timeout at 3.5 s starts the end-game, the end-game timer closes at 5 s *)
Example c04_silent_three_seconds :
  let I := mkIds (fun k => N.of_nat k + 100)%N (fun k n => N.of_nat n) in
  let cf := mkCfg 5 false false None in
  let nd := mkAddr false 167772162 7001 in
  let evs := [(0, EvBootState BBootstrapped); (1000000000, EvBootTable (2 ^ 159)%N nd []);
              (2000000000, EvStartLookup 77%N false); (3500000000, EvTimer); (5000000000, EvTimer)] in
  let outs := snd (run I (fun _ => true) cf true true (ns_init 5 0) evs) in
  nth 3 outs [] = [] /\ nth 4 outs [] = [OStreamEnd 2] /\
  existsb (fun o => match o with OSend d _ => addr_eqb d nd | _ => false end) (nth 2 outs []) = true.
Proof. vm_compute. repeat split. Qed.
