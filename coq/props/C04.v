(* C04 -- every search ends, neither early nor never.  Property theorems only.
   Proved here: the timer discipline the termination argument rests on, and immediate completion.
   The quantitative bounds (3 s under silence; 1.5 s per distinct node + 3 s; no close while a query
   is younger than 1.5 s) are checked on every simulated run of the real node by c04's checker and by
   trace validation of the model -- see the level note (partial). *)
From BT Require Import model.Prelude model.Compact model.Krpc model.Token model.Storage model.Table model.Txn model.Handler.
From BT Require Import proofs.Handler_Facts proofs.Refresh_Facts proofs.Termination_Facts.
Open Scope Z_scope.

(* the timer fires entries in (deadline, id) order: the entry it yields is in the queue and no
   queued entry is strictly earlier; what remains is the queue without exactly that entry *)
Theorem c04_timer_fires_in_order : forall tm e tm',
  pop_timer tm = Some (e, tm') ->
  In e (tm_entries tm) /\ (forall x, In x (tm_entries tm) -> te_lt x e = false) /\
  tm' = cancel (te_deadline e, te_id e) tm.
Proof. exact pop_timer_least. Qed.

Theorem c04_cancel_removes_exactly : forall key tm x,
  In x (tm_entries (cancel key tm)) <-> In x (tm_entries tm) /\ key_eqb (te_deadline x, te_id x) key = false.
Proof. exact cancel_spec. Qed.

(* a search on a node that knows no good node closes in the step that starts it (no query sent) *)
Theorem c04_immediate_without_good_node : forall I sendok cf now s ih an,
  filter (fun n => status_eqb (node_status now n) Good) (closest_nodes now (ns_table s) ih) = [] ->
  snd (start_lookup I sendok cf now s ih an) = [OStreamEnd (ns_next_act s)] /\
  ns_lookups (fst (start_lookup I sendok cf now s ih an)) = ns_lookups s.
Proof. exact no_good_node_immediate. Qed.

(* a search produces a stream end only through recv_finished, and every event other than a
   response or a query is quiet: it can only send queries, end streams, notify or refresh *)
Theorem c04_other_events_quiet : forall I sendok cf sr qe now s e,
  is_query_event e = false -> is_response_event e = false ->
  forallb quiet (snd (step I sendok cf sr qe now s e)) = true.
Proof. exact step_quiet. Qed.

Print Assumptions c04_timer_fires_in_order.
Print Assumptions c04_cancel_removes_exactly.
Print Assumptions c04_immediate_without_good_node.
Print Assumptions c04_other_events_quiet.

(* non-vacuity, and the silent case in the model: one good contact that never answers --
   query at 2 s, its timeout at 3.5 s starts the end-game, the end-game timer closes at 5 s *)
Example c04_silent_three_seconds :
  let I := mkIds (fun k => N.of_nat k + 100)%N (fun k n => N.of_nat n) in
  let cf := mkCfg 5 false false None in
  let nd := mkAddr false 167772162 7001 in
  let evs := [(0, EvBootState BBootstrapped); (1000000000, EvBootTable (2 ^ 159)%N nd []);
              (2000000000, EvStartLookup 77%N false); (3500000000, EvTimer); (5000000000, EvTimer)] in
  let outs := snd (run I (fun _ => true) cf true true (ns_init 5 0) evs) in
  nth 3 outs [] = [] /\ nth 4 outs [] = [OStreamEnd 2] /\
  existsb (fun o => match o with OSend d _ => addr_eqb d nd | _ => false end) (nth 2 outs []) = true.
Proof. vm_compute. repeat split. Qed.

(* ================================================================== second part *)
(* ------------------------------------------------------------------ the hypotheses on the transaction ids *)
(* The searches are activities 2, 3, ... of the node; the theorems below are about runs in which fewer
   than K activities are started, where the first K activities have pairwise distinct action ids that
   fit the 5-byte prefix of a transaction id, and message ids that fit the 3-byte suffix.  The real
   generators guarantee this for K = 2^40 (C19: c19_aid_no_repeat_before_wrap; aid_lt, mid_lt).
   Injectivity for ALL activity indices cannot be assumed (there are only 2^40 prefixes). *)
Theorem c04_good_ids_meaning : forall I K, GoodIds I K <->
  (forall a, (a < K)%nat -> (aid_of I a < 2 ^ 40)%N) /\
  (forall a m, (a < K)%nat -> (mid_of I a m < 2 ^ 24)%N) /\
  (forall a b, (a < K)%nat -> (b < K)%nat -> aid_of I a = aid_of I b -> a = b).
Proof. exact GoodIds_meaning. Qed.

(* non-vacuity of the hypotheses: action ids k + 100, message ids counting up modulo 2^24 *)
Theorem c04_good_ids_nonvacuous :
  GoodIds (mkIds (fun k => N.of_nat k + 100)%N (fun k n => (N.of_nat n mod 2 ^ 24)%N)) 4096.
Proof. exact example_ids_good. Qed.

(* ------------------------------------------------------------------ (1) no stuck search *)
(* After ANY events -- datagrams, timer firings, search requests, bootstrap changes, of any number and
   in any order, handled at non-decreasing times t <= t1 <= t2 <= ... -- every search that is still open
     - is ongoing (in its end-game, or with at least one outstanding query);
     - if it is not in its end-game: every outstanding query carries the action id of the search, and
       the timeout entry it remembers is pending in the timer and due at most 1.5 s after the time of
       the last event handled;
     - if it is in its end-game: an end-game entry carrying its action id is pending, due at most 1.5 s
       after the last event, and the queries of the end-game round remember the key of that entry;
     - in both cases: some timer entry of its own is pending and due within 1.5 s of the last event.
   So, given that due timer entries are served (the runtime's part), no search can wait for ever. *)
Theorem c04_no_stuck_search : forall I K sendok cf qe id t0 t evs,
  (forall a, (a < K)%nat -> (aid_of I a < 2 ^ 40)%N) ->
  (forall a m, (a < K)%nat -> (mid_of I a m < 2 ^ 24)%N) ->
  (forall a b, (a < K)%nat -> (b < K)%nat -> aid_of I a = aid_of I b -> a = b) ->
  etimes_from t evs ->
  (2 + length (filter (fun te => match snd te with EvStartLookup _ _ => true | _ => false end) evs) <= K)%nat ->
  let s := fst (run I sendok cf true qe (ns_init id t0) evs) in
  forall lk, In lk (ns_lookups s) ->
    lookup_ongoing lk = true /\
    (lk_endgame lk = false ->
       lk_active lk <> [] /\
       forall tid d key, In (tid, (d, key)) (lk_active lk) ->
         tid_action tid = Some (aid_of I (lk_act lk)) /\
         exists e, In e (tm_entries (ns_timer s)) /\ (te_deadline e, te_id e) = key /\
                   te_task e = TkLookupTimeout tid /\ te_deadline e <= elast t evs + lookup_timeout) /\
    (lk_endgame lk = true ->
       exists e tid, In e (tm_entries (ns_timer s)) /\ te_task e = TkLookupEndGame tid /\
                     tid_action tid = Some (aid_of I (lk_act lk)) /\ te_deadline e <= elast t evs + endgame_timeout /\
                     forall tid' d key, In (tid', (d, key)) (lk_active lk) -> key = (te_deadline e, te_id e)) /\
    (exists e, In e (tm_entries (ns_timer s)) /\
               match te_task e with
               | TkRefresh => None
               | TkLookupTimeout x => tid_action x
               | TkLookupEndGame x => tid_action x
               end = Some (aid_of I (lk_act lk)) /\
               te_deadline e <= elast t evs + Z.max lookup_timeout endgame_timeout).
Proof. exact no_stuck_search_explicit. Qed.

(* both time-outs are 1.5 s *)
Theorem c04_timeouts : lookup_timeout = 1500000000 /\ endgame_timeout = 1500000000.
Proof. split; reflexivity. Qed.

(* The invariant behind it.  [Inv I now s]: the timer discipline J (C11), the remembered refresh key
   is that of the one pending refresh entry, the open searches have pairwise distinct activity
   indices handed out earlier, every open search is served at time [now], and every end-game entry
   in the timer carries the action id of an earlier activity which, if still an open search, is in
   its end-game. *)
Theorem c04_inv_meaning : forall I now s, Inv I now s <->
  J s /\
  ((refresh_part (ns_timer s) = [] /\ ns_refresh_pending s = None) \/
   (exists e, refresh_part (ns_timer s) = [e] /\ ns_refresh_pending s = Some (te_key e))) /\
  (NoDup (map lk_act (ns_lookups s)) /\ forall a, In a (map lk_act (ns_lookups s)) -> (a < ns_next_act s)%nat) /\
  Served I now s /\
  (forall e tid, In e (tm_entries (ns_timer s)) -> te_task e = TkLookupEndGame tid ->
     exists a, (a < ns_next_act s)%nat /\ tid_action tid = Some (aid_of I a) /\
               forall lk, In lk (ns_lookups s) -> lk_act lk = a -> lk_endgame lk = true).
Proof. exact Inv_meaning. Qed.

Theorem c04_served_meaning : forall I now s lk, Served I now s -> In lk (ns_lookups s) ->
  lookup_ongoing lk = true /\
  (lk_endgame lk = false ->
     lk_active lk <> [] /\
     forall tid d key, In (tid, (d, key)) (lk_active lk) ->
       tid_action tid = Some (aid_of I (lk_act lk)) /\
       exists e, In e (tm_entries (ns_timer s)) /\ (te_deadline e, te_id e) = key /\
                 te_task e = TkLookupTimeout tid /\ te_deadline e <= now + lookup_timeout) /\
  (lk_endgame lk = true ->
     exists e tid, In e (tm_entries (ns_timer s)) /\ te_task e = TkLookupEndGame tid /\
                   tid_action tid = Some (aid_of I (lk_act lk)) /\ te_deadline e <= now + endgame_timeout /\
                   forall tid' d key, In (tid', (d, key)) (lk_active lk) -> key = (te_deadline e, te_id e)).
Proof. exact Served_unfold. Qed.

(* the invariant holds initially, at any time ... *)
Theorem c04_inv_init : forall I now id t0, Inv I now (ns_init id t0).
Proof. exact Inv_init. Qed.

(* ... and is kept by every event, whenever (later) it is handled, as long as activity indices < K remain *)
Theorem c04_inv_step : forall I K, GoodIds I K -> forall sendok cf qe now now' s e,
  Inv I now s -> now <= now' -> (ns_next_act (fst (step I sendok cf true qe now' s e)) <= K)%nat ->
  Inv I now' (fst (step I sendok cf true qe now' s e)).
Proof. exact Inv_step. Qed.

Theorem c04_inv_run : forall I K sendok cf qe id t0 t evs, GoodIds I K -> etimes_from t evs ->
  (2 + length (filter (fun te => match snd te with EvStartLookup _ _ => true | _ => false end) evs) <= K)%nat ->
  Inv I (elast t evs) (fst (run I sendok cf true qe (ns_init id t0) evs)).
Proof. exact served_run_starts. Qed.

(* a run hands out at most 2 + (number of search requests) activity indices *)
Theorem c04_activities_bounded : forall I sendok cf sr qe id t0 evs,
  (ns_next_act (fst (run I sendok cf sr qe (ns_init id t0) evs)) <=
   2 + length (filter (fun te => match snd te with EvStartLookup _ _ => true | _ => false end) evs))%nat.
Proof. exact run_next_act. Qed.

(* ------------------------------------------------------------------ (2) every end is a completion, exactly once *)
(* (for both variants of the refresh and of the handler, no hypothesis on the ids)
   For every event: a stream end is emitted for exactly those searches that were open before the event
   or were started by it, and are not open after it ... *)
Theorem c04_stream_end_iff : forall I sendok cf sr qe now s e a,
  (NoDup (map lk_act (ns_lookups s)) /\ forall x, In x (map lk_act (ns_lookups s)) -> (x < ns_next_act s)%nat) ->
  let s' := fst (step I sendok cf sr qe now s e) in
  (In (OStreamEnd a) (snd (step I sendok cf sr qe now s e)) <->
   (In a (map lk_act (ns_lookups s)) \/ (ns_next_act s <= a < ns_next_act s')%nat) /\
   ~ In a (map lk_act (ns_lookups s'))).
Proof. exact stream_end_iff. Qed.

(* ... each of them exactly once ... *)
Theorem c04_stream_end_once : forall I sendok cf sr qe now s e,
  (NoDup (map lk_act (ns_lookups s)) /\ forall x, In x (map lk_act (ns_lookups s)) -> (x < ns_next_act s)%nat) ->
  NoDup (flat_map (fun o => match o with OStreamEnd a => [a] | _ => [] end) (snd (step I sendok cf sr qe now s e))).
Proof. exact stream_end_once. Qed.

(* ... as a multiset equation: ended ++ open afterwards = started by the event ++ open before *)
Theorem c04_stream_end_accounting : forall I sendok cf sr qe now s e,
  (NoDup (map lk_act (ns_lookups s)) /\ forall x, In x (map lk_act (ns_lookups s)) -> (x < ns_next_act s)%nat) ->
  let s' := fst (step I sendok cf sr qe now s e) in
  (ns_next_act s <= ns_next_act s')%nat /\
  Permutation.Permutation
    (flat_map (fun o => match o with OStreamEnd a => [a] | _ => [] end) (snd (step I sendok cf sr qe now s e))
     ++ map lk_act (ns_lookups s'))
    (seq (ns_next_act s) (ns_next_act s' - ns_next_act s) ++ map lk_act (ns_lookups s)).
Proof. exact step_acct. Qed.

(* the hypothesis of the three theorems above (open searches have distinct activity indices, all
   handed out already) holds initially and is kept by every event *)
Theorem c04_open_distinct_init : forall id t0,
  NoDup (map lk_act (ns_lookups (ns_init id t0))) /\
  forall x, In x (map lk_act (ns_lookups (ns_init id t0))) -> (x < ns_next_act (ns_init id t0))%nat.
Proof. exact U_init. Qed.

Theorem c04_open_distinct_step : forall I sendok cf sr qe now s e,
  (NoDup (map lk_act (ns_lookups s)) /\ forall x, In x (map lk_act (ns_lookups s)) -> (x < ns_next_act s)%nat) ->
  let s' := fst (step I sendok cf sr qe now s e) in
  NoDup (map lk_act (ns_lookups s')) /\ forall x, In x (map lk_act (ns_lookups s')) -> (x < ns_next_act s')%nat.
Proof. exact step_U. Qed.

(* (i) after its stream end a search is not open any more; (ii) a search that disappears from the open
   searches has its stream end among the outputs of that very event *)
Theorem c04_ended_not_open : forall I sendok cf sr qe now s e a,
  (NoDup (map lk_act (ns_lookups s)) /\ forall x, In x (map lk_act (ns_lookups s)) -> (x < ns_next_act s)%nat) ->
  In (OStreamEnd a) (snd (step I sendok cf sr qe now s e)) ->
  ~ In a (map lk_act (ns_lookups (fst (step I sendok cf sr qe now s e)))).
Proof. exact ended_not_open. Qed.

Theorem c04_closed_has_end : forall I sendok cf sr qe now s e lk,
  (NoDup (map lk_act (ns_lookups s)) /\ forall x, In x (map lk_act (ns_lookups s)) -> (x < ns_next_act s)%nat) ->
  In lk (ns_lookups s) -> ~ In (lk_act lk) (map lk_act (ns_lookups (fst (step I sendok cf sr qe now s e)))) ->
  In (OStreamEnd (lk_act lk)) (snd (step I sendok cf sr qe now s e)).
Proof. exact closed_has_end. Qed.

(* over a whole run: once the stream end of a search has been emitted, no later event emits a second
   stream end or yields a result for that search *)
Theorem c04_end_is_final : forall I sendok cf sr qe id t0 evs1 now e evs2 a,
  let s1 := fst (run I sendok cf sr qe (ns_init id t0) evs1) in
  In (OStreamEnd a) (snd (step I sendok cf sr qe now s1 e)) ->
  forall o, In o (concat (snd (run I sendok cf sr qe (fst (step I sendok cf sr qe now s1 e)) evs2))) ->
    o <> OStreamEnd a /\ forall x, o <> OYield a x.
Proof. exact end_is_final. Qed.

(* ------------------------------------------------------------------ (3) not early *)
(* the cause of a stream end: either the search was started by this very event (and found nobody to
   ask: c04_immediate_without_good_node), or the event is the firing of an end-game entry that
   carries the action id of the search, which was open *)
Theorem c04_stream_end_cause : forall I K, GoodIds I K -> forall sendok cf qe now now' s e a,
  Inv I now s -> now <= now' -> (ns_next_act (fst (step I sendok cf true qe now' s e)) <= K)%nat ->
  In (OStreamEnd a) (snd (step I sendok cf true qe now' s e)) ->
  (ns_next_act s <= a < ns_next_act (fst (step I sendok cf true qe now' s e)))%nat \/
  (e = EvTimer /\
   exists en tm tid lk, pop_timer (ns_timer s) = Some (en, tm) /\ te_task en = TkLookupEndGame tid /\
     tid_action tid = Some (aid_of I a) /\ In lk (ns_lookups s) /\ lk_act lk = a).
Proof. exact stream_end_cause. Qed.

(* an open search whose stream end is emitted was in its end-game (all its earlier queries answered or
   timed out), and the event is the firing of an end-game entry with its action id *)
Theorem c04_closed_in_endgame : forall I K, GoodIds I K -> forall sendok cf qe now now' s e lk,
  Inv I now s -> now <= now' -> (ns_next_act (fst (step I sendok cf true qe now' s e)) <= K)%nat ->
  In lk (ns_lookups s) -> In (OStreamEnd (lk_act lk)) (snd (step I sendok cf true qe now' s e)) ->
  lk_endgame lk = true /\
  (e = EvTimer /\
   exists en tm tid lk', pop_timer (ns_timer s) = Some (en, tm) /\ te_task en = TkLookupEndGame tid /\
     tid_action tid = Some (aid_of I (lk_act lk)) /\ In lk' (ns_lookups s) /\ lk_act lk' = lk_act lk).
Proof. exact closed_in_endgame. Qed.

(* a search that is not in its end-game -- one of its queries is neither answered nor timed out -- is
   still open after the event, whatever the event: neither a response, nor the timeout of a query,
   nor anything else closes it; when its last outstanding query is answered or times out it enters
   its end-game instead (and then stays open until the end-game entry, due 1.5 s later, fires) *)
Theorem c04_not_endgame_stays_open : forall I K, GoodIds I K -> forall sendok cf qe now now' s e lk,
  Inv I now s -> now <= now' -> (ns_next_act (fst (step I sendok cf true qe now' s e)) <= K)%nat ->
  In lk (ns_lookups s) -> lk_endgame lk = false ->
  In (lk_act lk) (map lk_act (ns_lookups (fst (step I sendok cf true qe now' s e)))).
Proof. exact not_endgame_stays_open. Qed.

(* an open search survives every event that is not the firing of an end-game entry with its action id *)
Theorem c04_open_search_survives : forall I K, GoodIds I K -> forall sendok cf qe now now' s e lk,
  Inv I now s -> now <= now' -> (ns_next_act (fst (step I sendok cf true qe now' s e)) <= K)%nat ->
  In lk (ns_lookups s) ->
  (forall en tm tid, e = EvTimer -> pop_timer (ns_timer s) = Some (en, tm) -> te_task en = TkLookupEndGame tid ->
                     tid_action tid <> Some (aid_of I (lk_act lk))) ->
  In (lk_act lk) (map lk_act (ns_lookups (fst (step I sendok cf true qe now' s e)))).
Proof. exact open_search_survives. Qed.

(* the boolean checker used in the example below decides (soundly) that every open search is served *)
Theorem c04_served_checker_sound : forall I now s, served_b I now s = true -> Served I now s.
Proof. exact served_b_sound. Qed.

Print Assumptions c04_good_ids_meaning.
Print Assumptions c04_good_ids_nonvacuous.
Print Assumptions c04_no_stuck_search.
Print Assumptions c04_timeouts.
Print Assumptions c04_inv_meaning.
Print Assumptions c04_served_meaning.
Print Assumptions c04_inv_init.
Print Assumptions c04_inv_step.
Print Assumptions c04_inv_run.
Print Assumptions c04_activities_bounded.
Print Assumptions c04_stream_end_iff.
Print Assumptions c04_stream_end_once.
Print Assumptions c04_stream_end_accounting.
Print Assumptions c04_open_distinct_init.
Print Assumptions c04_open_distinct_step.
Print Assumptions c04_ended_not_open.
Print Assumptions c04_closed_has_end.
Print Assumptions c04_end_is_final.
Print Assumptions c04_stream_end_cause.
Print Assumptions c04_closed_in_endgame.
Print Assumptions c04_not_endgame_stays_open.
Print Assumptions c04_open_search_survives.
Print Assumptions c04_served_checker_sound.

(* non-vacuity, a search with two contacts A and B: A answers after 0.1 s naming a closer node C,
   B and C stay silent.  Queries to B and A at 2 s (timeouts due 3.5 s); A's answer at 2.1 s cancels
   A's timeout and sends a query to C (timeout due 3.6 s); B's timeout fires at 3.5 s (one query
   still outstanding: no end-game yet); C's timeout at 3.6 s starts the end-game (entry due 5.1 s);
   its firing at 5.1 s ends the stream.  After every event every open search is served (checked by
   the sound checker), the refresh entry (due 6 s) stays pending throughout. *)
Example c04_one_answers_one_silent :
  let I := mkIds (fun k => N.of_nat k + 100)%N (fun k n => (N.of_nat n mod 2 ^ 24)%N) in
  let cf := mkCfg 5 false false None in
  let ndA := mkAddr false 167772162 7001 in
  let ndB := mkAddr false 167772163 7002 in
  let ndC := mkAddr false 167772164 7003 in
  let evs := [(0, EvBootState BBootstrapped);
              (1000000000, EvBootTable (2 ^ 159)%N ndA []); (1000000000, EvBootTable (2 ^ 158)%N ndB []);
              (2000000000, EvStartLookup 77%N false);
              (2100000000, EvMsg ndA (mkMsg (tid_bytes 102 1) (Resp (mkResp (2 ^ 159)%N [] [mkNodeh 79%N ndC] [] None))));
              (3500000000, EvTimer); (3600000000, EvTimer); (5100000000, EvTimer)] in
  let sts := states I (fun _ => true) cf true true (ns_init 5 0) evs in
  let outs := snd (run I (fun _ => true) cf true true (ns_init 5 0) evs) in
  (* the pending timer entries after each event: (deadline, 0 = refresh / 1 = query timeout / 2 = end-game) *)
  map (fun s => map (fun e => (te_deadline e, match te_task e with TkRefresh => 0 | TkLookupTimeout _ => 1 | TkLookupEndGame _ => 2 end)%nat)
                    (tm_entries (ns_timer s))) sts =
    [[(6000000000, 0%nat)]; [(6000000000, 0%nat)]; [(6000000000, 0%nat)];
     [(6000000000, 0%nat); (3500000000, 1%nat); (3500000000, 1%nat)];
     [(6000000000, 0%nat); (3500000000, 1%nat); (3600000000, 1%nat)];
     [(6000000000, 0%nat); (3600000000, 1%nat)];
     [(6000000000, 0%nat); (5100000000, 2%nat)];
     [(6000000000, 0%nat)]] /\
  (* the open searches after each event: (in end-game?, outstanding queries) *)
  map (fun s => map (fun lk => (lk_endgame lk, length (lk_active lk))) (ns_lookups s)) sts =
    [[]; []; []; [(false, 2%nat)]; [(false, 2%nat)]; [(false, 1%nat)]; [(true, 0%nat)]; []] /\
  (* every open search is served after each event, at the time of that event *)
  forallb (fun p => served_b I (fst p) (snd p)) (combine (map fst evs) sts) = true /\
  (* the outputs from the response on *)
  skipn 4 outs = [[OSend ndC (mkMsg (tid_bytes 102 2) (Req (GetPeers 5 77 None)))]; []; []; [OStreamEnd 2]].
Proof. vm_compute. repeat split. Qed.
