(* C19 -- transaction ids: 8 bytes, never reused while live or shared between
   activities.  Property theorems only.  The shuffle is an arbitrary oracle that
   returns permutations (assumption A-RNG: rand's shuffle permutes). *)
From BT Require Import model.Prelude model.Txn proofs.Txn_Facts.
From Coq Require Import Permutation.

Definition perm_oracle (shuf : nat -> list N -> list N) : Prop :=
  forall k l, Permutation (shuf k l) l.

(* every transaction id is 8 bytes (all < 256), and from_bytes accepts exactly 8-byte strings *)
Theorem c19_tid_8_bytes : forall aid mid,
  length (compose aid mid) = 8%nat /\ bytes_ok (compose aid mid) = true.
Proof. intros. split; [apply compose_length | apply compose_ok]. Qed.

Theorem c19_from_bytes_exactly_8 : forall b,
  tid_from_bytes b = if Nat.eqb (length b) 8 then Some b else None.
Proof. exact from_bytes_spec. Qed.

(* within one activity (one MIDGenerator) no id repeats until 2^24 have been issued,
   for any number c of draws and any shuffle oracle *)
Theorem c19_mid_no_repeat_before_wrap : forall shuf, perm_oracle shuf ->
  forall (c i j : nat) v, (i < j)%nat -> (j < c)%nat -> N.of_nat j < 2 ^ 24 ->
  nth_error (draws mid_B mid_M shuf c (mid_init mid_B)) i = Some v ->
  nth_error (draws mid_B mid_M shuf c (mid_init mid_B)) j <> Some v.
Proof. exact mid_no_repeat_before_wrap. Qed.

(* beyond the wrap: equal ids are at least 2^24 - 2048 + 1 draws apart *)
Theorem c19_mid_repeat_gap : forall shuf, perm_oracle shuf ->
  forall (c i j : nat) v, (i < j)%nat -> (j < c)%nat ->
  nth_error (draws mid_B mid_M shuf c (mid_init mid_B)) i = Some v ->
  nth_error (draws mid_B mid_M shuf c (mid_init mid_B)) j = Some v ->
  2 ^ 24 - 2048 + 1 <= N.of_nat j - N.of_nat i.
Proof. exact mid_repeat_gap. Qed.

(* activities: the 5-byte prefixes handed out by one AIDGenerator do not repeat
   until 2^40 activities have been started *)
Theorem c19_aid_no_repeat_before_wrap : forall shuf, perm_oracle shuf ->
  forall (c i j : nat) v, (i < j)%nat -> (j < c)%nat -> N.of_nat j < 2 ^ 40 ->
  nth_error (draws aid_B aid_M shuf c (aid_init aid_B aid_M shuf)) i = Some v ->
  nth_error (draws aid_B aid_M shuf c (aid_init aid_B aid_M shuf)) j <> Some v.
Proof. exact aid_no_repeat_before_wrap. Qed.

(* attribution: an id built from generator outputs determines its activity
   prefix and its message id; two activities with different prefixes never
   produce the same 8 bytes, and action_id() recovers the prefix *)
Theorem c19_attributable : forall shufA shufM1 shufM2,
  perm_oracle shufA -> perm_oracle shufM1 -> perm_oracle shufM2 ->
  forall cA i1 i2 a1 a2 c1 c2 j1 j2 m1 m2,
  nth_error (draws aid_B aid_M shufA cA (aid_init aid_B aid_M shufA)) i1 = Some a1 ->
  nth_error (draws aid_B aid_M shufA cA (aid_init aid_B aid_M shufA)) i2 = Some a2 ->
  nth_error (draws mid_B mid_M shufM1 c1 (mid_init mid_B)) j1 = Some m1 ->
  nth_error (draws mid_B mid_M shufM2 c2 (mid_init mid_B)) j2 = Some m2 ->
  action_id (compose a1 m1) = a1 /\ message_id (compose a1 m1) = m1 /\
  (compose a1 m1 = compose a2 m2 -> a1 = a2 /\ m1 = m2).
Proof.
  intros sA s1 s2 HA H1 H2 cA i1 i2 a1 a2 c1 c2 j1 j2 m1 m2 E1 E2 E3 E4.
  pose proof (aid_lt sA HA _ _ _ E1). pose proof (aid_lt sA HA _ _ _ E2).
  pose proof (mid_lt s1 H1 _ _ _ E3). pose proof (mid_lt s2 H2 _ _ _ E4).
  split; [apply compose_action_id; assumption|].
  split; [apply compose_message_id; assumption|].
  apply compose_inj; assumption.
Qed.

Print Assumptions c19_tid_8_bytes.
Print Assumptions c19_from_bytes_exactly_8.
Print Assumptions c19_mid_no_repeat_before_wrap.
Print Assumptions c19_mid_repeat_gap.
Print Assumptions c19_aid_no_repeat_before_wrap.
Print Assumptions c19_attributable.

(* non-vacuity: a concrete permutation oracle (reverse every block) and a run
   through more than two blocks *)
Example c19_nonvacuous :
  perm_oracle (fun _ l => rev l) /\
  let d := draws mid_B mid_M (fun _ l => rev l) 4100 (mid_init mid_B) in
  (length d = 4100%nat /\ nth_error d 0 = Some 2047 /\ nth_error d 2048 = Some 4095 /\ nth_error d 4099 = Some 6140).
Proof.
  split; [intros k l; apply Permutation_sym, Permutation_rev|].
  vm_compute. repeat split.
Qed.
