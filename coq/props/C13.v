(* C13 -- KRPC wire codec conforms to BEP5/BEP32 and round-trips every message.
   Property theorems only; the model is model/{Bencode,Compact,Krpc,Utf8}.v, the lemmas
   are in proofs/{Bencode,Compact,Krpc}_Facts.v and proofs/Krpc_Decode.v.

   Vocabulary.  [tree_of_msg m] is the BEP 5 / BEP 32 dictionary of [m] (model/Krpc.v,
   written as a spec); [canon] is canonical bencoding (minimal integers and lengths,
   dictionaries sorted by key); [ser] serialises a tree keeping the key order it is given;
   [msg_wf] = what the Rust types guarantee plus "node lists are of the right family";
   [msg_small] = every byte string of the message is shorter than 2^64 (true of any Vec). *)
From BT Require Import model.Prelude model.Krpc.
From BT Require Import proofs.Bencode_Facts proofs.Compact_Facts proofs.Krpc_Facts proofs.Krpc_Decode proofs.Krpc_Reject proofs.Krpc_Fuel.
From Coq Require Import Permutation.

(* The encoder emits exactly the canonical bencoding of the BEP dictionary: sorted keys,
   compact 6/18-byte peers, 26/38-byte nodes, big-endian ports, implied_port with port 0.
   For every well-formed message: any tid, ids, lists of any length, tokens of any length. *)
Theorem c13_encode_canonical : forall m : msg,
  msg_wf m = true -> encode_msg m = Some (canon (tree_of_msg m)).
Proof. exact encode_canonical. Qed.

(* ... and refuses a response whose `nodes` holds an IPv6 node or `nodes6` an IPv4 node *)
Theorem c13_encode_wrong_family : forall (tid : bytes) (r : response),
  ~ (Forall (fun n => a_v6 (n_addr n) = false) (r_nodes4 r) /\ Forall (fun n => a_v6 (n_addr n) = true) (r_nodes6 r)) ->
  encode_msg (mkMsg tid (Resp r)) = None.
Proof. exact encode_wrong_family. Qed.

(* decode . encode = id, also with trailing bytes behind the datagram *)
Theorem c13_roundtrip : forall (m : msg) (b trailing : bytes),
  msg_wf m = true -> msg_small m = true -> encode_msg m = Some b ->
  decode_msg b = Some m /\ decode_msg (b ++ trailing) = Some m.
Proof.
  intros m b trailing Hwf Hsm He. split; [exact (decode_encode m b Hwf Hsm He)|].
  rewrite (encode_canonical m Hwf) in He. assert (Hb : b = canon (tree_of_msg m)) by congruence.
  rewrite Hb. exact (decode_canon m trailing Hwf Hsm).
Qed.

(* generic bencode: parsing the order-preserving serialisation of ANY tree (i64 integers,
   lengths < 2^64) gives the tree back and leaves the rest; for sorted trees this is the
   canonical encoding.  Includes decimal print/parse of every length and integer. *)
Theorem c13_bencode_roundtrip : forall (v : bvalue) (rest : bytes),
  bv_wf v ->
  parse_value (ser v ++ rest) = Some (v, rest) /\
  (bv_sorted v -> canon v = ser v /\ parse_value (canon v) = Some (v, [])).
Proof.
  intros v rest Hwf. split; [exact (parse_value_ser v rest Hwf)|].
  intros Hs. split; [exact (canon_ser v Hs) | exact (parse_value_canon v Hwf Hs)].
Qed.

(* Key order and unknown keys are irrelevant, at every level.
   [reordered reserved ok E es'] : es' consists of the entries E and of extra entries, in
   any order; the extra keys are outside [reserved] and satisfy [ok].
     - top level: reserved = t y q a r e; extra keys must be UTF-8 (the code reads keys of the
       streamed dictionaries with deserialize_str) -- v, ip, ro, ... are;
     - `r`: reserved = id values nodes nodes6 token; extra keys UTF-8;
     - `a`: reserved = id target info_hash want port implied_port token (the keys of ALL query
       variants: a stray `target` in a get_peers selects find_node in the code); any extra key.
   Extra values are arbitrary bencode.  The whole tree must be representable (bv_wf) and nest
   at most MAX_DEPTH = 32 containers deep -- the bound that precheck (src/bencode.rs) imposes.
   Every serialisation that keeps the given order decodes to the same message, with or without
   trailing bytes. *)
Theorem c13_reorder_unknown_keys : forall (m : msg) (sub : bvalue) (top' : list (bytes * bvalue)) (trailing : bytes),
  msg_wf m = true ->
  body_reordered (m_body m) sub ->
  reordered known_top (fun k => utf8_valid k = true) (top_entries (m_tid m) (m_body m) sub) top' ->
  bv_wf (BDict top') -> (vdepth (BDict top') <= 32)%nat ->
  decode_msg (ser (BDict top') ++ trailing) = Some m.
Proof. exact decode_reordered. Qed.

(* What is refused.  [query_top tid es q] is the query dictionary {a: es, q: q, t: tid, y: q}.
   (1) arguments that do not fit the named method: the canonical arguments of any query [rq] under
       the name [q] of another method;
   (2) an id-typed argument that is not 20 bytes -- `id` under any method, `target` under find_node,
       `info_hash` under get_peers / announce_peer -- whatever else the argument dictionary holds,
       in any order (so also with unknown keys);
   (3) a response whose return values hold, behind a prefix of valid entries (in canonical order:
       everything that sorts before the bad key) and in front of anything, an `id` that is not 20
       bytes, a `nodes` / `nodes6` string whose length is not a multiple of 26 / 38, or a `values`
       list with a peer string that is not 6 / 18 bytes (behind any number of good ones).
   In every case: with or without trailing bytes; the tree must be representable and nest <= 32. *)
Theorem c13_rejects :
  (forall tid rq q qt trailing,
     request_wf rq = true ->
     find (fun kv => bytes_eqb q (fst kv)) rtype_variants = Some (q, qt) -> qt <> rtype_of rq ->
     bv_wf (BDict (query_top tid (args_entries rq) q)) ->
     decode_msg (ser (BDict (query_top tid (args_entries rq) q)) ++ trailing) = None) /\
  (forall tid es q qt s k trailing,
     find (fun kv => bytes_eqb q (fst kv)) rtype_variants = Some (q, qt) ->
     In (k, BStr s) es -> length s <> 20%nat ->
     (k = k_id \/ (k = k_target /\ qt = QFindNode) \/ (k = k_info_hash /\ (qt = QGetPeers \/ qt = QAnnouncePeer))) ->
     bv_wf (BDict (query_top tid es q)) -> (vdepth (BDict (query_top tid es q)) <= 32)%nat ->
     decode_msg (ser (BDict (query_top tid es q)) ++ trailing) = None) /\
  (forall rs pre suf kv post top_post trailing,
     response_wf rs = true -> resp_entries rs = pre ++ suf ->
     ~ In (fst kv) (map fst pre) -> bad_entry kv ->
     bv_wf (BDict ((k_r, BDict (pre ++ kv :: post)) :: top_post)) ->
     (vdepth (BDict ((k_r, BDict (pre ++ kv :: post)) :: top_post)) <= 32)%nat ->
     decode_msg (ser (BDict ((k_r, BDict (pre ++ kv :: post)) :: top_post)) ++ trailing) = None).
Proof. exact (conj reject_qa_mismatch (conj reject_query_bad_id reject_response)). Qed.

(* The model's recursion fuel is never the reason for a [None]: the library run never ends in
   the out-of-fuel outcome, so [decode_msg b = None] means precheck or the library reported an
   error (this is what makes [None] in c13_rejects, and in the correspondence runs, a refusal). *)
Theorem c13_none_is_error : forall b : bytes,
  snd (run_lib b) <> Oof /\
  (decode_msg b = None ->
   precheck b = None \/ exists e s, precheck b = Some e /\ run_lib (firstn e b) = (s, Fail)).
Proof. exact (fun b => conj (run_lib_never_oof b) (decode_none_is_error b)). Qed.

Print Assumptions c13_encode_canonical.
Print Assumptions c13_encode_wrong_family.
Print Assumptions c13_roundtrip.
Print Assumptions c13_bencode_roundtrip.
Print Assumptions c13_reorder_unknown_keys.
Print Assumptions c13_rejects.
Print Assumptions c13_none_is_error.

(* ---- non-vacuity ---- *)
Definition ex_id1 : N := be_to_N (bs "abcdefghij0123456789").
Definition ex_id2 : N := be_to_N (bs "mnopqrstuvwxyz123456").
Definition ex_announce : msg := mkMsg (bs "aa") (Req (AnnouncePeer ex_id1 ex_id2 None (bs "aoeusnth"))).
Definition ex_resp : msg :=
  mkMsg [0; 255] (Resp (mkResp ex_id1 [mkAddr false 1635281509 11893; mkAddr true 1 6881]
                               [mkNodeh ex_id2 (mkAddr false 2130706433 6789)]
                               [mkNodeh ex_id1 (mkAddr true (2 ^ 128 - 1) 65535)] (Some []))).

(* the unit test of src/message.rs (implied port), and a response with every optional part *)
Example c13_encode_nonvacuous :
  msg_wf ex_announce = true /\ msg_small ex_announce = true /\
  encode_msg ex_announce
  = Some (bs "d1:ad2:id20:abcdefghij012345678912:implied_porti1e9:info_hash20:mnopqrstuvwxyz1234564:porti0e5:token8:aoeusnthe1:q13:announce_peer1:t2:aa1:y1:qe") /\
  msg_wf ex_resp = true /\ msg_small ex_resp = true /\
  encode_msg ex_resp = Some (canon (tree_of_msg ex_resp)) /\
  decode_msg (canon (tree_of_msg ex_resp)) = Some ex_resp /\ length (canon (tree_of_msg ex_resp)) = 180%nat.
Proof. vm_compute. repeat split; reflexivity. Qed.

Example c13_bencode_nonvacuous :
  let v := BDict [(bs "a", BList [BInt (-9223372036854775808); BInt 9223372036854775807; BStr []]);
                  (bs "b", BDict [(bs "", BInt 0)])] in
  bv_wf v /\ bv_sorted v /\ parse_value (canon v ++ [7]) = Some (v, [7]).
Proof. vm_compute. repeat split; try reflexivity; try discriminate. Qed.

(* a get_peers query with reversed keys, unknown keys at both levels (one with a deeply nested
   value), and trailing bytes *)
Example c13_reorder_nonvacuous :
  let m := mkMsg (bs "tt") (Req (GetPeers ex_id1 ex_id2 (Some WantBoth))) in
  let args' := rev (args_entries (GetPeers ex_id1 ex_id2 (Some WantBoth))
                    ++ [(bs "noseed", BInt 1); ([255; 254], BList [BList [BDict []]])]) in
  let top' := rev (top_entries (bs "tt") (m_body m) (BDict args')
                   ++ [(bs "v", BStr (bs "LT")); (bs "ip", BStr [1; 2; 3; 4; 5; 6]); (bs "ro", BInt 1)]) in
  msg_wf m = true /\ body_reordered (m_body m) (BDict args') /\
  reordered known_top (fun k => utf8_valid k = true) (top_entries (m_tid m) (m_body m) (BDict args')) top' /\
  bv_wf (BDict top') /\ (vdepth (BDict top') <= 32)%nat /\
  decode_msg (ser (BDict top') ++ bs "trailing") = Some m /\
  ser (BDict top') <> canon (tree_of_msg m).
Proof.
  cbv zeta. split; [reflexivity|]. split.
  { eexists. split; [reflexivity|]. eexists. split; [apply Permutation_sym, Permutation_rev|].
    repeat constructor; cbn; intuition discriminate. }
  split.
  { eexists. split; [apply Permutation_sym, Permutation_rev|].
    repeat constructor; cbn; try reflexivity; intuition discriminate. }
  split; [vm_compute; repeat split; try reflexivity; discriminate|].
  split; [vm_compute; lia|].
  split; [vm_compute; reflexivity | vm_compute; discriminate].
Qed.

(* rejected: get_peers arguments under `ping`; a 19-byte target under find_node next to an unknown key;
   a response with a good id and nodes, a 37-byte nodes6 string, then a token *)
Example c13_rejects_nonvacuous :
  let rq := GetPeers ex_id1 ex_id2 None in
  let es := [(bs "x", BInt 0); (k_target, BStr (repeat 65 19)); (k_id, BStr (enc_id ex_id1))] in
  let rs := mkResp ex_id1 [] [mkNodeh ex_id2 (mkAddr false 2130706433 6789)] [] None in
  let r' := [(k_id, BStr (enc_id ex_id1)); (k_nodes, BStr (cat_nodes (r_nodes4 rs)))] ++ (k_nodes6, BStr (repeat 0 37)) :: [(k_token, BStr [])] in
  (request_wf rq = true /\ find (fun kv => bytes_eqb s_ping (fst kv)) rtype_variants = Some (s_ping, QPing) /\
   QPing <> rtype_of rq /\ bv_wf (BDict (query_top (bs "aa") (args_entries rq) s_ping)) /\
   decode_msg (ser (BDict (query_top (bs "aa") (args_entries rq) s_ping))) = None) /\
  (In (k_target, BStr (repeat 65 19)) es /\ bv_wf (BDict (query_top [] es s_find_node)) /\
   decode_msg (ser (BDict (query_top [] es s_find_node))) = None /\
   decode_msg (ser (BDict (query_top [] es s_ping))) <> None) /\
  (response_wf rs = true /\ resp_entries rs = [(k_id, BStr (enc_id ex_id1)); (k_nodes, BStr (cat_nodes (r_nodes4 rs)))] ++ [] /\
   bad_entry (k_nodes6, BStr (repeat 0 37)) /\
   bv_wf (BDict [(k_r, BDict r'); (k_t, BStr (bs "aa")); (k_y, BStr k_r)]) /\
   decode_msg (ser (BDict [(k_r, BDict r'); (k_t, BStr (bs "aa")); (k_y, BStr k_r)])) = None).
Proof.
  cbv zeta. repeat split; try (vm_compute; reflexivity); try (vm_compute; discriminate);
    try (vm_compute; repeat split; reflexivity); try (vm_compute; auto).
  constructor. vm_compute. discriminate.
Qed.

(* the 13 encode/decode vectors of the unit tests in src/message.rs, on the model *)
Definition ex_id3 : N := be_to_N (bs "0123456789abcdefghij").
Definition ex_id4 : N := be_to_N (bs "mnopqrstuvwxyz012345").
Definition ex_a1 : addr := mkAddr false 1635281509 11893.                 (* 97.120.106.101:11893 "axje.u" *)
Definition ex_a2 : addr := mkAddr false 1768188020 28269.                 (* 105.100.104.116:28269 "idhtnm" *)
Definition ex_a6 : addr := mkAddr true (be_to_N (bs "abcdefghijklmnop")) 11893.
Definition unit_vectors : list (string * msg) := [
  ("d1:ad2:id20:abcdefghij0123456789e1:q4:ping1:t2:aa1:y1:qe", mkMsg (bs "aa") (Req (Ping ex_id1)));
  ("d1:ad2:id20:abcdefghij01234567896:target20:mnopqrstuvwxyz123456e1:q9:find_node1:t2:aa1:y1:qe",
   mkMsg (bs "aa") (Req (FindNode ex_id1 ex_id2 None)));
  ("d1:ad2:id20:abcdefghij01234567896:target20:mnopqrstuvwxyz1234564:wantl2:n42:n6ee1:q9:find_node1:t2:aa1:y1:qe",
   mkMsg (bs "aa") (Req (FindNode ex_id1 ex_id2 (Some WantBoth))));
  ("d1:ad2:id20:abcdefghij01234567899:info_hash20:mnopqrstuvwxyz123456e1:q9:get_peers1:t2:aa1:y1:qe",
   mkMsg (bs "aa") (Req (GetPeers ex_id1 ex_id2 None)));
  ("d1:ad2:id20:abcdefghij01234567899:info_hash20:mnopqrstuvwxyz1234564:wantl2:n4ee1:q9:get_peers1:t2:aa1:y1:qe",
   mkMsg (bs "aa") (Req (GetPeers ex_id1 ex_id2 (Some WantV4))));
  ("d1:ad2:id20:abcdefghij012345678912:implied_porti1e9:info_hash20:mnopqrstuvwxyz1234564:porti0e5:token8:aoeusnthe1:q13:announce_peer1:t2:aa1:y1:qe",
   ex_announce);
  ("d1:ad2:id20:abcdefghij01234567899:info_hash20:mnopqrstuvwxyz1234564:porti6881e5:token8:aoeusnthe1:q13:announce_peer1:t2:aa1:y1:qe",
   mkMsg (bs "aa") (Req (AnnouncePeer ex_id1 ex_id2 (Some 6881) (bs "aoeusnth"))));
  ("d1:rd2:id20:mnopqrstuvwxyz123456e1:t2:aa1:y1:re", mkMsg (bs "aa") (Resp (mkResp ex_id2 [] [] [] None)));
  ("d1:rd2:id20:0123456789abcdefghij5:nodes26:mnopqrstuvwxyz012345axje.ue1:t2:aa1:y1:re",
   mkMsg (bs "aa") (Resp (mkResp ex_id3 [] [mkNodeh ex_id4 ex_a1] [] None)));
  ("d1:rd2:id20:0123456789abcdefghij6:nodes638:mnopqrstuvwxyz012345abcdefghijklmnop.ue1:t2:aa1:y1:re",
   mkMsg (bs "aa") (Resp (mkResp ex_id3 [] [] [mkNodeh ex_id4 ex_a6] None)));
  ("d1:rd2:id20:abcdefghij01234567895:token8:aoeusnth6:valuesl6:axje.u6:idhtnmee1:t2:aa1:y1:re",
   mkMsg (bs "aa") (Resp (mkResp ex_id1 [ex_a1; ex_a2] [] [] (Some (bs "aoeusnth")))));
  ("d1:rd2:id20:abcdefghij01234567895:nodes52:mnopqrstuvwxyz123456axje.u789abcdefghijklmnopqidhtnm5:token8:aoeusnthe1:t2:aa1:y1:re",
   mkMsg (bs "aa") (Resp (mkResp ex_id1 [] [mkNodeh ex_id2 ex_a1; mkNodeh (be_to_N (bs "789abcdefghijklmnopq")) ex_a2] []
                                 (Some (bs "aoeusnth")))));
  ("d1:eli201e23:A Generic Error Ocurrede1:t2:aa1:y1:ee", mkMsg (bs "aa") (Err 201 (bs "A Generic Error Ocurred")))
]%string.

Example c13_unit_vectors :
  forallb (fun v => msg_wf (snd v) && msg_small (snd v) &&
                    match encode_msg (snd v), decode_msg (bs (fst v)) with
                    | Some b, Some m => bytes_eqb b (bs (fst v)) && bytes_eqb b (canon (tree_of_msg (snd v)))
                                        && match encode_msg m with Some b' => bytes_eqb b' b | None => false end
                    | _, _ => false
                    end) unit_vectors = true.
Proof. vm_compute. reflexivity. Qed.
