(* Evaluator used by generated case files for C20: each case is the hex string
   <ip octets><20-byte id> as produced by the real InfoHash::from_ip. *)
From BT Require Import model.Prelude model.Bep42.

Fixpoint chunks (w : nat) (fuel : nat) (l : bytes) : list bytes :=
  match fuel with
  | O => []
  | S f => match l with [] => [] | _ => firstn w l :: chunks w f (skipn w l) end
  end.

Definition mk_ip (ipw : nat) (o : bytes) : ipaddr :=
  if Nat.eqb ipw 4 then IPv4 o else IPv6 o.

(* the id reveals its own random draws: id[19], id[2] & 7, id[3..19] *)
Definition model_id (ipw : nat) (c : bytes) : bytes :=
  let ip := firstn ipw c in let id := skipn ipw c in
  from_ip (mk_ip ipw ip) (nth 19 id 0) (N.land (nth 2 id 0) 7) (firstn 16 (skipn 3 id)).

Definition case_agrees (ipw : nat) (c : bytes) : bool :=
  ip_wf (mk_ip ipw (firstn ipw c)) && bytes_eqb (model_id ipw c) (skipn ipw c).

Definition case_valid (ipw : nat) (c : bytes) : bool :=
  bep42_valid (mk_ip ipw (firstn ipw c)) (skipn ipw c).

(* returns (number of cases, indices where model <> implementation, indices where
   the implementation's id fails the BEP42 check) *)
Definition run (ipw : nat) (hexcases : list string) : N * list N * list N :=
  let cs := flat_map (fun s => let b := hex s in chunks (ipw + 20) (length b) b) hexcases in
  (N.of_nat (length cs),
   find_idx (fun c => negb (case_agrees ipw c)) cs,
   find_idx (fun c => negb (case_valid ipw c)) cs).
