(* Evaluators for C19 case files. The observed block orders of the real
   generators are fed to the model as its shuffle oracle. *)
From BT Require Import model.Prelude model.Txn.
From Coq Require Import Sorting.Mergesort Orders.

Module NOrder <: TotalLeBool.
  Definition t := N.
  Definition leb := N.leb.
  Theorem leb_total : forall a b, leb a b = true \/ leb b a = true.
  Proof. intros a b. unfold leb. destruct (N.leb_spec a b); [left; reflexivity | right; apply N.leb_le; lia]. Qed.
End NOrder.
Module NSort := Sort NOrder.

(* split a hex string into numbers of w bytes each *)
Fixpoint nums (w : nat) (fuel : nat) (l : bytes) : list N :=
  match fuel with
  | O => []
  | S f => match l with [] => [] | _ => be_to_N (firstn w l) :: nums w f (skipn w l) end
  end.
Definition hexnums (w : nat) (s : string) : list N := let b := hex s in nums w (length b) b.

(* oracle from observed consecutive blocks: block number k is handed out in the observed order *)
Definition oracle (obs : list (list N)) (k : nat) (l : list N) : list N := nth k obs l.

(* consecutive blocks starting at block 0 of a fresh generator:
   (model draws = observed draws, each observed block is a permutation of the model's block) *)
Definition check_from_start (B M : N) (init : (nat -> list N -> list N) -> gen) (obs : list (list N)) : bool * bool :=
  let shuf := oracle obs in
  let all := concat obs in
  (list_eqb N.eqb (draws B M shuf (length all) (init shuf)) all,
   forallb (fun '(k, o) => list_eqb N.eqb (NSort.sort o) (block_vals B (block_of B M (N.of_nat k))))
           (combine (seq 0 (length obs)) obs)).

(* arbitrary blocks (k, observed ids): sorted observed block = model block k *)
Definition check_blocks (B M : N) (obs : list (N * list N)) : list N :=
  map fst (filter (fun '(k, o) => negb (list_eqb N.eqb (NSort.sort o) (block_vals B (block_of B M k)))) obs).

(* block summaries (k, start) as computed by the harness: start must be the model's block_of k *)
Definition check_summary (B M : N) (sums : list (N * N)) : list N :=
  map fst (filter (fun '(k, s) => negb (block_of B M k =? s)) sums).

(* ids (as 8 bytes) <-> (aid, mid) *)
Definition tid_ok (aid mid : N) (tid : bytes) : bool :=
  bytes_eqb (compose aid mid) tid && (action_id tid =? aid) && (message_id tid =? mid)
  && match tid_from_bytes tid with Some _ => true | None => false end.
