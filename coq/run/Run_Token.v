(* Evaluators for C06 case files: scripts refer to tokens by the index of the
   checkout that produced them. *)
From BT Require Import model.Prelude model.Token.
Open Scope Z_scope.

Inductive rop :=
| RCo (ip : ipaddr)                       (* checkout *)
| RCi (ip : ipaddr) (ref : nat)           (* checkin of the token returned by operation #ref *)
| RCiRaw (ip : ipaddr)                    (* checkin of 20 bytes that are no issued token (flipped bit / zero / reversed) *)
| RCiLen (ip : ipaddr).                   (* presentation of a token that is not 20 bytes: Token::new fails in the handler,
                                             the store is not consulted at all (no lazy rotation either) *)

Definition CO (t : Z) (v6 : bool) (ip : N) : Z * rop := (t, RCo (v6, ip)).
Definition CI (t : Z) (v6 : bool) (ip : N) (ref : nat) : Z * rop := (t, RCi (v6, ip) ref).
Definition CR (t : Z) (v6 : bool) (ip : N) : Z * rop := (t, RCiRaw (v6, ip)).
Definition CL (t : Z) (v6 : bool) (ip : N) : Z * rop := (t, RCiLen (v6, ip)).

(* model run: observation per op = (token class | accept flag).  Token classes are
   numbered (is_v6, ip, secret) -> printed as a triple so Python can compare equality patterns *)
Inductive robs := ObsTok (v6 : bool) (ip : N) (secret : N) | ObsAcc (b : bool).

Fixpoint rrun (s : tstore) (done : list tout) (ops : list (Z * rop)) : list robs :=
  match ops with
  | [] => []
  | (t, RCo ip) :: r =>
      let '(k, s') := checkout ip t s in
      match k with
      | TSha i sec => ObsTok (fst i) (snd i) (N.of_nat sec)
      | TRaw _ => ObsAcc false
      end :: rrun s' (done ++ [OTok k]) r
  | (t, RCi ip n) :: r =>
      let k := match nth n done (OAcc false) with OTok k => k | OAcc _ => TRaw [] end in
      let '(b, s') := checkin ip k t s in ObsAcc b :: rrun s' (done ++ [OAcc b]) r
  | (t, RCiRaw ip) :: r =>
      let '(b, s') := checkin ip (TRaw []) t s in ObsAcc b :: rrun s' (done ++ [OAcc b]) r
  | (t, RCiLen ip) :: r => ObsAcc false :: rrun s (done ++ [OAcc false]) r
  end.

Definition model_obs (t0 : Z) (ops : list (Z * rop)) : list robs := rrun (tinit t0) [] ops.

(* accept flags only, for the diff against the implementation *)
Definition acc_of (o : robs) : N := match o with ObsAcc true => 1%N | ObsAcc false => 0%N | ObsTok _ _ _ => 2%N end.

(* ---- executable checker of the C06 clauses on observed accept flags ---- *)
Fixpoint c06_check (all : list (Z * rop)) (ops : list (Z * rop)) (obs : list N) (i : N) : option N :=
  match ops, obs with
  | [], [] => None
  | (tj, RCi ip' n) :: r, b :: obs' =>
      let bad :=
        match nth_error all n with
        | Some (ti, RCo ip) =>
            (ip_eqb ip ip' && (tj <=? ti + 600000000000) && negb (b =? 1)%N)
            || ((ti + 1800000000000 <=? tj) && negb (b =? 0)%N)
            || (negb (ip_eqb ip ip') && negb (b =? 0)%N)
        | _ => false
        end in
      if bad then Some i else c06_check all r obs' (i + 1)%N
  | (_, RCiRaw _) :: r, b :: obs' => if (b =? 0)%N then c06_check all r obs' (i + 1)%N else Some i
  | (_, RCiLen _) :: r, b :: obs' => if (b =? 0)%N then c06_check all r obs' (i + 1)%N else Some i
  | (_, RCo _) :: r, b :: obs' => if (b =? 2)%N then c06_check all r obs' (i + 1)%N else Some i
  | _, _ => Some i
  end.
Definition c06_ok (ops : list (Z * rop)) (obs : list N) : option N := c06_check ops ops obs 0%N.
Definition c06_ok_model (t0 : Z) (ops : list (Z * rop)) : option N := c06_ok ops (map acc_of (model_obs t0 ops)).
