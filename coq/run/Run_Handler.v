(* Trace validation of the handler model: the model is driven with exactly the
   events the real handler handled (hook H3 log) and must produce exactly the
   sends / yields / stream ends / refresh rounds the real node produced. *)
From BT Require Import model.Prelude model.Compact model.Krpc model.Token model.Storage model.Table model.Txn model.Handler.
Open Scope Z_scope.

(* raw event as logged *)
Inductive rev_ :=
| RMsg (src : addr) (hexdata : string)
| RTimer
| RStartLookup (ih : N) (announce : bool)
| RCheckBootstrap
| ROtherCmd
| RBootState (code : N)          (* 0 AwaitStart 1 InitialContact 2 Bootstrapping 3 Bootstrapped 4 Idle *)
| RBootTable (id : N) (a : addr) (named : list (N * addr))
| RBootLocalReq (id : N) (a : addr)
| RSetRouters (rts : list addr)
| RShutdown.

(* observed output of one handler event *)
Inductive xout :=
| XSend (dst : addr) (hexdata : string)
| XYield (aid : N) (a : addr)
| XEnd (aid : N)
| XRound (bucket : N).

Definition ad (v6 : bool) (ip port : N) : addr := mkAddr v6 ip port.

Definition bstate_of (c : N) : bstate :=
  match c with 0%N => BAwaitStart | 1%N => BInitialContact | 2%N => BBootstrapping | 3%N => BBootstrapped | _ => BIdle end.

Definition ids_of (aids : list N) (mids : list (list N)) : ids :=
  mkIds (fun k => nth k aids 0%N) (fun k n => nth n (nth k mids []) 0%N).

Definition opt_bytes_eqb (a b : option bytes) : bool :=
  match a, b with Some x, Some y => bytes_eqb x y | None, None => true | _, _ => false end.
Definition nodeh_eqb (a b : nodeh) : bool := (n_id a =? n_id b)%N && addr_eqb (n_addr a) (n_addr b).
Definition opt_want_eqb (a b : option want) : bool :=
  match a, b with
  | None, None => true
  | Some WantV4, Some WantV4 | Some WantV6, Some WantV6 | Some WantBoth, Some WantBoth => true
  | _, _ => false
  end.
Definition opt_N_eqb (a b : option N) : bool :=
  match a, b with Some x, Some y => (x =? y)%N | None, None => true | _, _ => false end.

(* tokens issued by the node itself are compared by presence and length only (the real ones are
   SHA-1 digests, the model's are an injective encoding of (ip, secret)) *)
Definition own_token_match (a b : option bytes) : bool :=
  match a, b with Some x, Some y => Nat.eqb (length x) (length y) | None, None => true | _, _ => false end.

Definition msg_match (model observed : msg) : bool :=
  bytes_eqb (m_tid model) (m_tid observed) &&
  match m_body model, m_body observed with
  | Req (Ping a), Req (Ping b) => (a =? b)%N
  | Req (FindNode a t w), Req (FindNode b t' w') => (a =? b)%N && (t =? t')%N && opt_want_eqb w w'
  | Req (GetPeers a t w), Req (GetPeers b t' w') => (a =? b)%N && (t =? t')%N && opt_want_eqb w w'
  | Req (AnnouncePeer a t p k), Req (AnnouncePeer b t' p' k') =>
      (a =? b)%N && (t =? t')%N && opt_N_eqb p p' && bytes_eqb k k'
  | Resp r, Resp r' =>
      (r_id r =? r_id r')%N && list_eqb addr_eqb (r_values r) (r_values r')
      && list_eqb nodeh_eqb (r_nodes4 r) (r_nodes4 r') && list_eqb nodeh_eqb (r_nodes6 r) (r_nodes6 r')
      && own_token_match (r_token r) (r_token r')
  | Err c t, Err c' t' => (c =? c')%N && bytes_eqb t t'
  | _, _ => false
  end.

Definition out_match (I : ids) (m : output) (x : xout) : bool :=
  match m, x with
  | OSend d mm, XSend d' h =>
      addr_eqb d d' && match decode_msg (hex h) with Some om => msg_match mm om | None => false end
  | OYield act a, XYield aid a' => (aid_of I act =? aid)%N && addr_eqb a a'
  | OStreamEnd act, XEnd aid => (aid_of I act =? aid)%N
  | ORefreshRound b, XRound b' => (N.of_nat b =? b')%N
  | _, _ => false
  end.

Definition is_notify (o : output) : bool := match o with ONotify _ => true | _ => false end.

(* token map: real token bytes -> model token bytes, learned from get_peers replies *)
Definition tokmap := list (bytes * bytes).

Fixpoint learn_tokens (mo : list output) (xo : list xout) (tm : tokmap) : tokmap :=
  match mo, xo with
  | OSend _ mm :: mr, XSend _ h :: xr =>
      let tm' := match m_body mm, decode_msg (hex h) with
                 | Resp r, Some (mkMsg _ (Resp r')) =>
                     match r_token r, r_token r' with
                     | Some mt, Some rt => (rt, mt) :: tm
                     | _, _ => tm
                     end
                 | _, _ => tm
                 end in
      learn_tokens mr xr tm'
  | _ :: mr, _ :: xr => learn_tokens mr xr tm
  | _, _ => tm
  end.

Definition translate_token (tm : tokmap) (m : msg) : msg :=
  match m_body m with
  | Req (AnnouncePeer id ih p k) =>
      match List.find (fun e => bytes_eqb (fst e) k) tm with
      | Some (_, mt) => mkMsg (m_tid m) (Req (AnnouncePeer id ih p mt))
      | None => m
      end
  | _ => m
  end.

Definition event_of (tm : tokmap) (r : rev_) : option event :=
  match r with
  | RMsg src h => match decode_msg (hex h) with Some m => Some (EvMsg src (translate_token tm m)) | None => None end
  | RTimer => Some EvTimer
  | RStartLookup ih a => Some (EvStartLookup ih a)
  | RCheckBootstrap => Some EvCheckBootstrap
  | ROtherCmd => Some EvOtherCmd
  | RBootState c => Some (EvBootState (bstate_of c))
  | RBootTable id a named => Some (EvBootTable id a named)
  | RBootLocalReq id a => Some (EvBootLocalReq id a)
  | RSetRouters rts => Some (EvSetRouters rts)
  | RShutdown => Some EvShutdown
  end.

Fixpoint list_eqb_het {A B} (f : A -> B -> bool) (a : list A) (b : list B) : bool :=
  match a, b with
  | [], [] => true
  | x :: a', y :: b' => f x y && list_eqb_het f a' b'
  | _, _ => false
  end.

(* replay; returns the indices of the events whose outputs differ (or whose datagram the model
   decoder rejects although the real decoder accepted it), and the final state *)
Fixpoint replay (I : ids) (sendok : nat -> bool) (cf : cfg) (s : nstate) (tm : tokmap)
         (evs : list (Z * rev_ * list xout)) (i : N) : list N * nstate :=
  match evs with
  | [] => ([], s)
  | (now, r, xo) :: rest =>
      match event_of tm r with
      | None => let '(bad, s') := replay I sendok cf s tm rest (i + 1)%N in (i :: bad, s')
      | Some e =>
          let '(s1, mo) := step I sendok cf true true now s e in
          let mo' := filter (fun o => negb (is_notify o)) mo in
          let ok := list_eqb_het (out_match I) mo' xo in
          let '(bad, s') := replay I sendok cf s1 (learn_tokens mo' xo tm) rest (i + 1)%N in
          (if ok then bad else i :: bad, s')
      end
  end.

Definition run_case (aids : list N) (mids : list (list N)) (sendok : list bool) (cf : cfg) (t0 : Z)
  (evs : list (Z * rev_ * list xout)) : list N :=
  fst (replay (ids_of aids mids) (fun k => nth k sendok true) cf (ns_init (c_id cf) t0) [] evs 0%N).
