(* Evaluators for the routing-table case files (C08, C09, C10). *)
From BT Require Import model.Prelude model.Table.
Open Scope Z_scope.

Inductive rtop :=
| TRouter (a : addr)
| TOffer (t : Z) (good : bool) (id : N) (a : addr)
| TAddNodes (t : Z) (id : N) (a : addr) (named : list (N * addr))
| TLreq (t : Z) (id : N) (a : addr)
| TRreq (t : Z) (id : N) (a : addr)
| TDump (t : Z)
| TClosest (t : Z) (target : N)
| TContacts (t : Z).

Definition slot := (N * N * addr)%type.     (* (status code 0 bad /1 questionable /2 good, id, addr); bad slots are (0,0,dummy) *)
Inductive rtobs :=
| ObOk
| ObFound (b : bool)
| ObDump (l : list (list slot))
| ObClosest (l : list (N * addr))
| ObContacts (g q : list addr).

Definition ad (v6 : bool) (ip port : N) : addr := mkAddr v6 ip port.
Definition dummy_addr : addr := mkAddr false 2130706433 0.
Definition bad_slot : slot := (0%N, 0%N, dummy_addr).

Definition slot_of (now : Z) (n : node) : slot :=
  match node_status now n with
  | Bad => bad_slot
  | Questionable => (1%N, nd_id n, nd_addr n)
  | Good => (2%N, nd_id n, nd_addr n)
  end.

Definition found (now : Z) (t : table) (id : N) (a : addr) : bool :=
  let idx := bucket_index_for t id in
  let h := mkNode id a None None None 0 in
  match position (fun n => is_pingable now n && same_handle h n) (nth idx (buckets t) []) with
  | Some _ => true | None => false end.

Definition rt_step (t : table) (o : rtop) : table * rtobs :=
  match o with
  | TRouter a => (mkTable (buckets t) (local_id t) (a :: routers t), ObOk)
  | TOffer now good id a =>
      (add_node now t (if good then as_good id a now else as_questionable id a now), ObOk)
  | TAddNodes now id a named => (add_nodes now t (as_good id a now) named, ObOk)
  | TLreq now id a => (update_node now t id a (local_request now), ObFound (found now t id a))
  | TRreq now id a => (update_node now t id a (remote_request now), ObFound (found now t id a))
  | TDump now => (t, ObDump (map (map (slot_of now)) (buckets t)))
  | TClosest now target => (t, ObClosest (map (fun n => (nd_id n, nd_addr n)) (closest_nodes now t target)))
  | TContacts now => (t, ObContacts (map nd_addr (nodes_with now t Good)) (map nd_addr (nodes_with now t Questionable)))
  end.

Fixpoint rt_run (t : table) (ops : list rtop) : list rtobs :=
  match ops with
  | [] => []
  | o :: r => let '(t', x) := rt_step t o in x :: rt_run t' r
  end.

Definition slot_eqb (x y : slot) : bool :=
  (fst (fst x) =? fst (fst y))%N && (snd (fst x) =? snd (fst y))%N && addr_eqb (snd x) (snd y).
Definition handle_eqb (x y : N * addr) : bool := (fst x =? fst y)%N && addr_eqb (snd x) (snd y).

Definition subset_addr (a b : list addr) : bool := forallb (fun x => existsb (addr_eqb x) b) a.
(* HashSet semantics of load_contacts: compare as sets *)
Definition set_eq_addr (a b : list addr) : bool := subset_addr a b && subset_addr b a.

Definition obs_eqb (x y : rtobs) : bool :=
  match x, y with
  | ObOk, ObOk => true
  | ObFound a, ObFound b => Bool.eqb a b
  | ObDump a, ObDump b => list_eqb (list_eqb slot_eqb) a b
  | ObClosest a, ObClosest b => list_eqb handle_eqb a b
  | ObContacts g q, ObContacts g' q' => set_eq_addr g g' && set_eq_addr q q'
  | _, _ => false
  end.

Definition diff (local : N) (ops : list rtop) (obs : list rtobs) : list N :=
  let outs := rt_run (new_table local) ops in
  if Nat.eqb (length outs) (length obs)
  then find_idx (fun p => negb (obs_eqb (fst p) (snd p))) (combine outs obs)
  else [999999%N].

(* ---- compact hex encodings used by the generated case files ----
   handle = 20-byte id, family byte (04|06), ip (4|16 bytes), port (2 bytes)
   slot   = 00 (bad)  |  01/02 (questionable/good) followed by a handle *)
Definition parse_handle (b : bytes) : option ((N * addr) * bytes) :=
  let id := be_to_N (firstn 20 b) in
  match skipn 20 b with
  | fam :: r =>
      let w := if (fam =? 6)%N then 16%nat else 4%nat in
      Some ((id, mkAddr (fam =? 6)%N (be_to_N (firstn w r)) (be_to_N (firstn 2 (skipn w r)))), skipn (w + 2) r)
  | [] => None
  end.

Fixpoint parse_handles (fuel : nat) (b : bytes) : list (N * addr) :=
  match fuel with
  | O => []
  | S f => match b with
           | [] => []
           | _ => match parse_handle b with
                  | Some (h, r) => h :: parse_handles f r
                  | None => []
                  end
           end
  end.
Definition handles (s : string) : list (N * addr) := let b := hex s in parse_handles (length b) b.
Definition handle1 (s : string) : N * addr := match handles s with h :: _ => h | [] => (0%N, dummy_addr) end.

Fixpoint parse_slots (fuel : nat) (b : bytes) : list slot :=
  match fuel with
  | O => []
  | S f => match b with
           | [] => []
           | st :: r =>
               if (st =? 0)%N then bad_slot :: parse_slots f r
               else match parse_handle r with
                    | Some ((id, a), r') => (st, id, a) :: parse_slots f r'
                    | None => []
                    end
           end
  end.
Definition slots (s : string) : list slot := let b := hex s in parse_slots (length b) b.
Definition addrs (s : string) : list addr := map snd (handles s).     (* handles with a dummy id *)

(* constructors used by case files *)
Definition Router (h : string) : rtop := TRouter (snd (handle1 h)).
Definition Offer (t : Z) (good : bool) (h : string) : rtop := let '(id, a) := handle1 h in TOffer t good id a.
Definition AddNodes (t : Z) (h : string) (named : string) : rtop :=
  let '(id, a) := handle1 h in TAddNodes t id a (handles named).
Definition Lreq (t : Z) (h : string) : rtop := let '(id, a) := handle1 h in TLreq t id a.
Definition Rreq (t : Z) (h : string) : rtop := let '(id, a) := handle1 h in TRreq t id a.
Definition Closest (t : Z) (idhex : string) : rtop := TClosest t (be_to_N (hex idhex)).
Definition DumpObs (bs : list string) : rtobs := ObDump (map slots bs).
Definition ClosestObs (s : string) : rtobs := ObClosest (handles s).
Definition ContactsObs (g q : string) : rtobs := ObContacts (addrs g) (addrs q).
