(* Executable checkers of C08 / C09 / C10 on OBSERVED routing-table traces
   (operations + what the real RoutingTable reported).  They use only the
   observations, the local id and the property text -- not the table model. *)
From BT Require Import model.Prelude model.Table run.Run_Table.
Open Scope Z_scope.

Definition st_of (s : slot) : N := fst (fst s).
Definition id_of (s : slot) : N := snd (fst s).
Definition addr_of (s : slot) : addr := snd s.
Definition is_live (s : slot) : bool := negb (st_of s =? 0)%N.
Definition same_h (x y : slot) : bool := (id_of x =? id_of y)%N && addr_eqb (addr_of x) (addr_of y).

Definition live_of (d : list (list slot)) : list slot := filter is_live (concat d).

Fixpoint nodup_h (l : list slot) : bool :=
  match l with [] => true | x :: r => negb (existsb (same_h x) r) && nodup_h r end.

(* ---------------------------------------------------------------- C08 *)
(* shape invariant on one dump *)
Definition c08_shape (local : N) (routers : list addr) (d : list (list slot)) : bool :=
  let len := length d in
  Nat.leb 1 len && Nat.leb len 160
  && forallb (fun b => Nat.eqb (length b) 8) d
  && nodup_h (live_of d)
  && forallb (fun ib =>
       forallb (fun s =>
         negb (is_live s) ||
         (negb (id_of s =? local)%N
          && negb (existsb (addr_eqb (addr_of s)) routers)
          && (if Nat.ltb (fst ib) (len - 1) then Nat.eqb (lcp local (id_of s)) (fst ib)
              else Nat.leb (len - 1) (lcp local (id_of s))))) (snd ib))
     (combine (seq 0 len) d).

Definition has_bad (b : list slot) : bool := existsb (fun s => negb (is_live s)) b.

(* transition clauses for  Dump ; Offer(good,id,a) ; Dump  at one instant *)
Definition c08_offer (local : N) (routers : list addr) (before after : list (list slot))
           (good : bool) (id : N) (a : addr) : bool :=
  let ns : N := if good then 2%N else 1%N in
  let new : slot := (ns, id, a) in
  let B := live_of before in
  let A := live_of after in
  let lost := filter (fun s => negb (existsb (same_h s) A)) B in
  let len := length before in
  let idx := if Nat.ltb (lcp local id) len then lcp local id else (len - 1)%nat in
  let tb := nth idx before [] in
  let present := existsb (same_h new) B in
  let admissible := negb (id =? local)%N && negb (existsb (addr_eqb a) routers) in
  (* at most one node is lost, it is strictly worse than the newcomer, and its bucket had no free/bad slot *)
  Nat.leb (length lost) 1
  && forallb (fun s => (st_of s <? ns)%N) lost
  && forallb (fun s => forallb (fun b => negb (existsb (same_h s) (filter is_live b)) || negb (has_bad b)) before) lost
  (* nobody else changes standing; nobody but the offered handle appears *)
  && forallb (fun s => same_h s new || match find (same_h s) A with
                                       | Some s' => (st_of s' =? st_of s)%N
                                       | None => existsb (same_h s) lost
                                       end) B
  && forallb (fun s => same_h s new || existsb (same_h s) B) A
  (* an inadmissible offer (own id, router address) changes nothing *)
  && (admissible || (list_eqb (list_eqb slot_eqb) before after))
  (* a repeated offer loses nobody and never lowers the standing *)
  && (negb present || (Nat.eqb (length lost) 0
                       && match find (same_h new) B, find (same_h new) A with
                          | Some s, Some s' => (st_of s <=? st_of s')%N
                          | _, _ => false
                          end))
  (* a full bucket of good nodes that cannot be split rejects a newcomer *)
  && (negb (admissible && negb present
            && forallb (fun s => (st_of s =? 2)%N) tb
            && negb (can_split len idx))
      || list_eqb (list_eqb slot_eqb) before after)
  (* room or a worse node in the target bucket: the newcomer is accepted, with its standing *)
  && (negb (admissible && negb present && existsb (fun s => (st_of s <? ns)%N) tb)
      || existsb (fun s => same_h s new && (st_of s =? ns)%N) A).

Fixpoint c08_check (local : N) (routers : list addr) (ops : list rtop) (obs : list rtobs) (i : N) : option N :=
  match ops, obs with
  | [], _ => None
  | TRouter a :: ops', _ :: obs' => c08_check local (a :: routers) ops' obs' (i + 1)%N
  | TDump t :: ops', ObDump d :: obs' =>
      if negb (c08_shape local routers d) then Some i
      else match ops', obs' with
           | TOffer t' good id a :: TDump t'' :: _, _ :: ObDump d' :: _ =>
               if (t =? t') && (t' =? t'') && negb (c08_offer local routers d d' good id a)
               then Some (i + 1)%N
               else c08_check local routers ops' obs' (i + 1)%N
           | _, _ => c08_check local routers ops' obs' (i + 1)%N
           end
  | _ :: ops', _ :: obs' => c08_check local routers ops' obs' (i + 1)%N
  | _ :: _, [] => Some i
  end.
Definition c08_ok (local : N) (ops : list rtop) (obs : list rtobs) : option N := c08_check local [] ops obs 0%N.

(* ---------------------------------------------------------------- C09 *)
(* Dump ; Closest(target) at one instant: the enumeration is a duplicate-free
   listing of exactly the live nodes, and every live node sharing a longer prefix
   with the target than the local id does is among the first nodes emitted *)
Definition c09_closest (local : N) (d : list (list slot)) (target : N) (cl : list (N * addr)) : bool :=
  let L := live_of d in
  let as_slot (h : N * addr) : slot := (1%N, fst h, snd h) in
  let C := map as_slot cl in
  let s := lcp local target in
  let near := filter (fun x => Nat.ltb s (lcp (id_of x) target)) L in
  let at_s := filter (fun x => Nat.eqb (lcp local (id_of x)) s) L in
  Nat.eqb (length C) (length L)
  && nodup_h C
  && forallb (fun c => existsb (same_h c) L) C
  && forallb (fun x => existsb (same_h x) (firstn (length at_s) C)) near
  && Nat.leb (length near) 8.

Fixpoint c09_check (local : N) (ops : list rtop) (obs : list rtobs) (i : N) : option N :=
  match ops, obs with
  | TDump t :: ((TClosest t' target :: _) as ops'), ObDump d :: ((ObClosest cl :: _) as obs') =>
      if (t =? t') && negb (c09_closest local d target cl) then Some (i + 1)%N
      else c09_check local ops' obs' (i + 1)%N
  | _ :: ops', _ :: obs' => c09_check local ops' obs' (i + 1)%N
  | _, _ => None
  end.
Definition c09_ok (local : N) (ops : list rtop) (obs : list rtobs) : option N := c09_check local ops obs 0%N.

(* ---------------------------------------------------------------- C10 *)
(* per-contact history, newest first: (time, kind) with kind
   0 = answer (offered as responder), 1 = hearsay, 2 = query received while known, 3 = query sent while known *)
Definition hist := list (N * addr * Z * N).
Definition h_eqb (id : N) (a : addr) (e : N * addr * Z * N) : bool :=
  (fst (fst (fst e)) =? id)%N && addr_eqb (snd (fst (fst e))) a.
Definition ev_time (e : N * addr * Z * N) : Z := snd (fst e).
Definition ev_kind (e : N * addr * Z * N) : N := snd e.

Definition min15 : Z := 900000000000.

(* some answer or received query of this contact lies within the last 15 minutes of [now] *)
Definition recent_contact (h : hist) (id : N) (a : addr) (now : Z) : bool :=
  existsb (fun e => h_eqb id a e && ((ev_kind e =? 0)%N || (ev_kind e =? 2)%N)
                    && (now - ev_time e <? min15)) h.

(* two queries sent while not good, with neither an answer nor a hearsay mention since the first of them *)
Fixpoint two_unanswered_from (h : hist) (id : N) (a : addr) (count : nat) : bool :=
  match h with
  | [] => false
  | e :: r =>
      if h_eqb id a e then
        if (ev_kind e =? 0)%N || (ev_kind e =? 1)%N then false
        else if (ev_kind e =? 3)%N then
          if recent_contact r id a (ev_time e) then two_unanswered_from r id a count
          else match count with O => true | S _ => two_unanswered_from r id a O end
        else two_unanswered_from r id a count
      else two_unanswered_from r id a count
  end.
Definition two_unanswered (h : hist) (id : N) (a : addr) : bool := two_unanswered_from h id a 1.

Definition c10_dump (h : hist) (now : Z) (d : list (list slot)) : bool :=
  let L := live_of d in
  (* reported good only with a recent answer / received query *)
  forallb (fun s => negb (st_of s =? 2)%N || recent_contact h (id_of s) (addr_of s) now) L
  (* two unanswered queries while not good: not reported at all *)
  && forallb (fun s => negb (two_unanswered h (id_of s) (addr_of s))) L.

Fixpoint c10_check (h : hist) (ops : list rtop) (obs : list rtobs) (i : N) : option N :=
  match ops, obs with
  | TOffer t good id a :: ops', _ :: obs' =>
      let h' := (id, a, t, if good then 0%N else 1%N) :: h in
      (* an accepted answer makes the contact good immediately (if it is listed at all) *)
      match ops', obs' with
      | TDump t' :: _, ObDump d :: _ =>
          if good && (t =? t')
             && existsb (fun s => same_h s (1%N, id, a) && negb (st_of s =? 2)%N) (live_of d)
          then Some (i + 1)%N else c10_check h' ops' obs' (i + 1)%N
      | _, _ => c10_check h' ops' obs' (i + 1)%N
      end
  | TAddNodes t id a named :: ops', _ :: obs' =>
      c10_check (map (fun x => (fst x, snd x, t, 1%N)) (rev named) ++ (id, a, t, 0%N) :: h) ops' obs' (i + 1)%N
  | TRreq t id a :: ops', ObFound b :: obs' =>
      c10_check (if b then (id, a, t, 2%N) :: h else h) ops' obs' (i + 1)%N
  | TLreq t id a :: ops', ObFound b :: obs' =>
      c10_check (if b then (id, a, t, 3%N) :: h else h) ops' obs' (i + 1)%N
  | TDump t :: ops', ObDump d :: obs' =>
      if c10_dump h t d then c10_check h ops' obs' (i + 1)%N else Some i
  | _ :: ops', _ :: obs' => c10_check h ops' obs' (i + 1)%N
  | _, _ => None
  end.
Definition c10_ok (ops : list rtop) (obs : list rtobs) : option N := c10_check [] ops obs 0%N.

(* the same checkers on the model's own observations (must always be None) *)
Definition model_obs (local : N) (ops : list rtop) : list rtobs := rt_run (new_table local) ops.
