(* Evaluator for socket-demultiplexer replays: the logged registrations, removals and received datagrams of a real node are run
   through model/Socket.v and the routing decision of every datagram is compared with the one the real socket took. *)
From BT Require Import model.Prelude model.Compact model.Krpc model.Socket.
Open Scope Z_scope.

Inductive xsev :=
| XReg (a : addr) (tid : string)
| XUnreg (a : addr) (tid : string)
| XRecv (a : addr) (data : string) (code : N).     (* observed: 0 dropped (undecodable), 1 to the pending exchange, 2 to the handler, 7 not observed *)

Definition ad (v6 : bool) (ip port : N) : addr := mkAddr v6 ip port.

Definition code_of (r : sres) : N :=
  match r with SRDropped => 0 | SRToWaiter _ => 1 | SRToHandler => 2 | SRNone => 3 | SRPanic => 9 end%N.

Fixpoint sock_replay (p : pending) (evs : list xsev) (i : N) (bad : list N) : list N :=
  match evs with
  | [] => rev bad
  | XReg a t :: r =>
      let '(p1, x) := sstep_sock p (SReg (a, hex t)) in
      sock_replay p1 r (i + 1)%N (match x with SRPanic => i :: bad | _ => bad end)
  | XUnreg a t :: r => sock_replay (fst (sstep_sock p (SUnreg (a, hex t)))) r (i + 1)%N bad
  | XRecv a d c :: r =>
      let '(p1, x) := sstep_sock p (SRecv a (hex d)) in
      sock_replay p1 r (i + 1)%N (if (code_of x =? c)%N || (c =? 7)%N then bad else i :: bad)
  end.

Definition sock_case (evs : list xsev) : list N := sock_replay [] evs 0%N [].
