(* Evaluators for the C13 / C14 case files: everything is compared INSIDE Coq and
   only indices of disagreeing cases (plus small summaries) are printed.

   Transport of data into Coq: byte strings and numbers are written as lists of
   primitive 63-bit integer literals (7 bytes per literal) because Coq 8.16 parses
   those ~25x faster than string or N literals.  Uint63 is used here only, never in
   a model definition or a theorem. *)
From Coq Require Import Uint63.
From BT Require Import model.Prelude model.Krpc.

(* ---- transport ---- *)
Definition nz (i : int) : N := Z.to_N (Uint63.to_Z i).
Definition bytes7 (i : int) : bytes := to_be 7 (nz i).
(* [len] bytes packed 7 per literal, the last literal zero-padded on the right *)
Definition bz (len : int) (l : list int) : bytes := firstn (N.to_nat (nz len)) (flat_map bytes7 l).
Definition idz (l : list int) : N := be_to_N (bz 20 l).      (* 160-bit id, 3 literals *)
Definition ip6 (l : list int) : N := be_to_N (bz 16 l).      (* IPv6 address, 3 literals *)

(* ---- constructors used by the generated case files ---- *)
Definition a4 (ip port : int) : addr := mkAddr false (nz ip) (nz port).
Definition a6 (ip : list int) (port : int) : addr := mkAddr true (ip6 ip) (nz port).
Definition nd (id : list int) (a : addr) : nodeh := mkNodeh (idz id) a.
Definition mQ (t : bytes) (r : request) : msg := mkMsg t (Req r).
Definition mR (t : bytes) (id : list int) (vs : list addr) (n4 n6 : list nodeh) (tk : option bytes) : msg :=
  mkMsg t (Resp (mkResp (idz id) vs n4 n6 tk)).
Definition mE (t : bytes) (c : int) (text : bytes) : msg := mkMsg t (Err (nz c) text).
Definition qP (id : list int) : request := Ping (idz id).
Definition qF (id tg : list int) (w : option want) : request := FindNode (idz id) (idz tg) w.
Definition qG (id ih : list int) (w : option want) : request := GetPeers (idz id) (idz ih) w.
Definition qA (id ih : list int) (p : option int) (tk : bytes) : request :=
  AnnouncePeer (idz id) (idz ih) (option_map nz p) tk.

(* ---- decidable equality of messages ---- *)
Definition opt_eqb {A} (eqb : A -> A -> bool) (a b : option A) : bool :=
  match a, b with
  | Some x, Some y => eqb x y
  | None, None => true
  | _, _ => false
  end.
Definition want_eqb (a b : want) : bool :=
  match a, b with
  | WantV4, WantV4 | WantV6, WantV6 | WantBoth, WantBoth => true
  | _, _ => false
  end.
Definition nodeh_eqb (a b : nodeh) : bool := (n_id a =? n_id b) && addr_eqb (n_addr a) (n_addr b).
Definition request_eqb (a b : request) : bool :=
  match a, b with
  | Ping i, Ping j => i =? j
  | FindNode i t w, FindNode j u x => (i =? j) && (t =? u) && opt_eqb want_eqb w x
  | GetPeers i t w, GetPeers j u x => (i =? j) && (t =? u) && opt_eqb want_eqb w x
  | AnnouncePeer i h p k, AnnouncePeer j g q l =>
      (i =? j) && (h =? g) && opt_eqb N.eqb p q && bytes_eqb k l
  | _, _ => false
  end.
Definition response_eqb (a b : response) : bool :=
  (r_id a =? r_id b) && list_eqb addr_eqb (r_values a) (r_values b)
  && list_eqb nodeh_eqb (r_nodes4 a) (r_nodes4 b) && list_eqb nodeh_eqb (r_nodes6 a) (r_nodes6 b)
  && opt_eqb bytes_eqb (r_token a) (r_token b).
Definition body_eqb (a b : body) : bool :=
  match a, b with
  | Req x, Req y => request_eqb x y
  | Resp x, Resp y => response_eqb x y
  | Err c t, Err d u => (c =? d) && bytes_eqb t u
  | _, _ => false
  end.
Definition msg_eqb (a b : msg) : bool := bytes_eqb (m_tid a) (m_tid b) && body_eqb (m_body a) (m_body b).

(* the implementation's re-encoding of what it decoded *)
Inductive reenc := ReNone | ReSame | ReBytes (b : bytes).   (* error / identical to the input / these bytes *)
Definition re_bytes (inp : bytes) (r : reenc) : option bytes :=
  match r with ReNone => None | ReSame => Some inp | ReBytes b => Some b end.

(* ---- C13: decode cases: input, what the implementation decoded, its re-encoding ---- *)
Record dcase := Dc { d_in : bytes; d_msg : option msg; d_re : reenc }.

(* correspondence: model decode <> implementation decode *)
Definition dec_diff (l : list dcase) : list N :=
  find_idx (fun c => negb (opt_eqb msg_eqb (decode_msg (d_in c)) (d_msg c))) l.
(* correspondence: model encode of the decoded message <> implementation's re-encoding *)
Definition enc_diff (l : list dcase) : list N :=
  find_idx (fun c => match d_msg c with
                     | Some m => negb (opt_eqb bytes_eqb (encode_msg m) (re_bytes (d_in c) (d_re c)))
                     | None => false
                     end) l.
(* property checker on the implementation's outputs (no decoder/encoder model involved):
   a decoded message is well-formed and its re-encoding is exactly the canonical bencoding
   of its BEP dictionary; returns the indices where this fails *)
Definition c13_conform_bad (l : list dcase) : list N :=
  find_idx (fun c => match d_msg c with
                     | Some m => negb (msg_wf m &&
                                       opt_eqb bytes_eqb (Some (canon (tree_of_msg m))) (re_bytes (d_in c) (d_re c)))
                     | None => false
                     end) l.

(* ---- C13: variant cases: a re-serialisation of a message's tree with permuted / unknown
   keys, the message it must decode to, what the implementation decoded ---- *)
Record vcase := Vc { v_in : bytes; v_msg : msg; v_impl : option msg }.
(* property checker on the implementation's output *)
Definition c13_variant_bad (l : list vcase) : list N :=
  find_idx (fun c => negb (opt_eqb msg_eqb (v_impl c) (Some (v_msg c)))) l.
(* the same for the model (correspondence) *)
Definition variant_model_bad (l : list vcase) : list N :=
  find_idx (fun c => negb (opt_eqb msg_eqb (decode_msg (v_in c)) (v_impl c))) l.

(* ---- C13: reject cases: inputs of the classes the property says must be refused; the
   implementation's verdict (true = it decoded something) ---- *)
Record rcase := Rc { rj_in : bytes; rj_impl_ok : bool }.
Definition c13_reject_bad (l : list rcase) : list N := find_idx rj_impl_ok l.
Definition reject_model_bad (l : list rcase) : list N :=
  find_idx (fun c => negb (Bool.eqb (is_some (decode_msg (rj_in c))) (rj_impl_ok c))) l.

(* ---- C13: encode cases: message, the implementation's encoding ---- *)
Record ecase := Ec { e_msg : msg; e_impl : option bytes }.
Definition encode_diff (l : list ecase) : list N :=
  find_idx (fun c => negb (opt_eqb bytes_eqb (encode_msg (e_msg c)) (e_impl c))) l.
(* property checker: a well-formed message is encoded to the canonical bytes of its tree and
   decodes (by the MODEL decoder, tied separately) back to itself; a message with a
   wrong-family node list is refused *)
Definition c13_encode_bad (l : list ecase) : list N :=
  find_idx (fun c => if msg_wf (e_msg c)
                     then negb (opt_eqb bytes_eqb (Some (canon (tree_of_msg (e_msg c)))) (e_impl c))
                     else is_some (e_impl c)) l.

(* ---- C14: instrumented decoding: input, largest single allocation request the
   implementation made while decoding it ---- *)
Record icase := Ic { i_in : bytes; i_peak : int }.
Definition list_max (l : list N) : N := fold_left N.max l 0.
(* property checker on the implementation's output: the largest single allocation request made
   while decoding is in proportion to the input (64 bytes per input byte -- serde's buffered
   Content is 32 bytes per element and vectors grow by doubling -- plus 4 KiB of slack for
   error strings and thread bookkeeping) *)
Definition c14_peak_bad (l : list icase) : list N :=
  find_idx (fun c => 64 * N.of_nat (length (i_in c)) + 4096 <? nz (i_peak c)) l.
(* the model says the library asked for more than the implementation's meter saw *)
Definition instr_diff (l : list icase) : list N :=
  find_idx (fun c => nz (i_peak c) <? list_max (o_allocs (decode_instr (i_in c)))) l.
(* checker on the model's own log: an allocation larger than the input / depth over the bound *)
Definition alloc_bad (bound_depth : nat) (l : list icase) : list N * list N :=
  (find_idx (fun c => N.of_nat (length (i_in c)) <? list_max (o_allocs (decode_instr (i_in c)))) l,
   find_idx (fun c => Nat.ltb bound_depth (o_depth (decode_instr (i_in c)))) l).
(* summary: (largest allocation in any log, deepest nesting, number of inputs that logged
   at least one allocation, number accepted by the model) *)
Definition instr_summary (l : list icase) : N * N * N * N :=
  let outs := map (fun c => decode_instr (i_in c)) l in
  (list_max (map (fun o => list_max (o_allocs o)) outs),
   list_max (map (fun o => N.of_nat (o_depth o)) outs),
   N.of_nat (length (filter (fun o => match o_allocs o with [] => false | _ => true end) outs)),
   N.of_nat (length (filter (fun o => is_some (o_msg o)) outs))).

(* ---- debugging aids (used only to explain a disagreement) ---- *)
Definition show_decode (b : bytes) : option msg := decode_msg b.
Definition show_instr (b : bytes) : outcome := decode_instr b.
Definition show_encode (m : msg) : option bytes := encode_msg m.
Definition show_nocheck (b : bytes) : outcome := decode_nocheck_instr b.
Definition show_onepass (b : bytes) : outcome := decode_onepass_instr b.
