(* Evaluators for C07 case files. *)
From BT Require Import model.Prelude model.Storage.
Open Scope Z_scope.

Definition A (t : Z) (ih : N) (v6 : bool) (ip port : N) : Z * sop := (t, SAdd (ih, mkAddr v6 ip port)).
Definition F (t : Z) (ih : N) : Z * sop := (t, SFind ih).
Definition ad (v6 : bool) (ip port : N) : addr := mkAddr v6 ip port.

Definition sout_eqb (x y : sout) : bool :=
  match x, y with
  | OAdd a, OAdd b => Bool.eqb a b
  | OFind l1, OFind l2 => list_eqb addr_eqb l1 l2
  | _, _ => false
  end.

(* indices of operations whose observed output differs from the model's *)
Definition diff (ops : list (Z * sop)) (obs : list sout) : list N :=
  let outs := snd (srun empty_store ops) in
  if Nat.eqb (length outs) (length obs)
  then find_idx (fun p => negb (sout_eqb (fst p) (snd p))) (combine outs obs)
  else [999999%N].

(* ---- executable checker of the C07 spec on an observed trace ---- *)
Definition alive_b (now t : Z) : bool := dur_since now t <? 86400000000000.
Definition alive_l (m : list (item * Z)) (now : Z) (it : item) : bool :=
  existsb (fun e => item_eqb (fst e) it && alive_b now (snd e)) m.
Definition count_live (m : list (item * Z)) (now : Z) : nat :=
  length (filter (fun e => alive_b now (snd e)) m).

Fixpoint nodup_addr (l : list addr) : bool :=
  match l with [] => true | x :: r => negb (existsb (addr_eqb x) r) && nodup_addr r end.

Fixpoint c07_check (m : list (item * Z)) (ops : list (Z * sop)) (obs : list sout) (i : N) : option N :=
  match ops, obs with
  | [], [] => None
  | (now, SAdd it) :: ops', OAdd b :: obs' =>
      let expected := alive_l m now it || Nat.ltb (count_live m now) 500 in
      if Bool.eqb b expected
      then c07_check (if b then (it, now) :: filter (fun e => negb (item_eqb (fst e) it)) m else m) ops' obs' (i + 1)%N
      else Some i
  | (now, SFind ih) :: ops', OFind l :: obs' =>
      if nodup_addr l
         && forallb (fun a => alive_l m now (ih, a)) l
         && forallb (fun e => if (fst (fst e) =? ih)%N && alive_b now (snd e)
                              then existsb (addr_eqb (snd (fst e))) l else true) m
      then c07_check m ops' obs' (i + 1)%N
      else Some i
  | _, _ => Some i
  end.

(* first operation index at which the observed trace violates the spec, if any *)
Definition c07_ok (ops : list (Z * sop)) (obs : list sout) : option N := c07_check [] ops obs 0%N.
(* the same checker on the model's own trace (must always be None) *)
Definition c07_ok_model (ops : list (Z * sop)) : option N := c07_ok ops (snd (srun empty_store ops)).
