#!/usr/bin/env python3
"""Translator: protocol constants of /repo's Rust sources -> coq/gen/Consts.v.

Every constant the model depends on is READ from the current working tree on
every run.  If one cannot be found or evaluated the translator fails (exit 2);
it never falls back to a default.  Durations are emitted in nanoseconds.

Part of the trusted base (DESIGN.md section 9).
"""
import os
import re
import sys

REPO = os.environ.get("VERIF_REPO", "/repo")


class ConstError(Exception):
    pass


def read(rel):
    with open(os.path.join(REPO, rel)) as f:
        return f.read()


def strip_test_mod(src):
    """Drop everything from `#[cfg(test)]\nmod tests` on."""
    m = re.search(r"#\[cfg\(test\)\]\s*mod\s+tests", src)
    return src[: m.start()] if m else src


CONST_RE = re.compile(
    r"((?:#\[[^\]]*\]\s*)*)(?:pub(?:\([a-z]+\))?\s+)?const\s+([A-Z0-9_]+)\s*:\s*([^=]+?)\s*=\s*([^;]+);"
)


def rust_expr_to_py(expr):
    e = expr.strip()
    e = re.sub(r"//[^\n]*", "", e)
    e = re.sub(r"Duration::from_secs\(", "_secs(", e)
    e = re.sub(r"Duration::from_millis\(", "_millis(", e)
    e = re.sub(r"\bas\s+(u8|u16|u32|u64|usize|i64)\b", "", e)
    e = re.sub(r"(\d)_(\d)", r"\1\2", e)
    e = re.sub(r"(\d+)(u8|u16|u32|u64|usize)\b", r"\1", e)
    e = e.replace("/", "//")
    return e


def eval_consts(src, extra_env=None):
    """Evaluate all `const` items of one file (non-test configuration)."""
    src = strip_test_mod(src)
    items = []
    for m in CONST_RE.finditer(src):
        attrs, name, ty, expr = m.groups()
        if re.search(r"cfg\(test\)", attrs) and not re.search(r"cfg\(not\(test\)\)", attrs):
            continue
        items.append((name, ty.strip(), expr))
    env = {"_secs": lambda x: x * 10**9, "_millis": lambda x: x * 10**6}
    if extra_env:
        env.update(extra_env)
    out = {}
    pending = items
    for _ in range(len(items) + 1):
        nxt = []
        for name, ty, expr in pending:
            try:
                val = eval(rust_expr_to_py(expr), {"__builtins__": {}}, {**env, **out})
            except NameError:
                nxt.append((name, ty, expr))
                continue
            except Exception as ex:  # noqa
                nxt.append((name, ty, expr))
                continue
            if name in out and out[name] != val:
                raise ConstError(f"constant {name} defined twice with different values")
            out[name] = val
        if not nxt:
            break
        pending = nxt
    return out, [n for n, _, _ in pending] if nxt else []


def need(d, name, where):
    if name not in d:
        raise ConstError(f"constant {name} not found/evaluable in {where}")
    v = d[name]
    if not isinstance(v, int):
        raise ConstError(f"constant {name} in {where} is not an integer: {v!r}")
    return v


def find1(pattern, src, where, what, flags=0):
    ms = re.findall(pattern, src, flags)
    if len(ms) == 0:
        raise ConstError(f"{what}: pattern not found in {where}")
    return ms


def gather():
    C = {}  # name -> int | list[int]

    # info_hash.rs
    src = strip_test_mod(read("src/info_hash.rs"))
    d, _ = eval_consts(src)
    C["info_hash_len"] = need(d, "INFO_HASH_LEN", "info_hash.rs")
    for nm in ("v4_mask", "v6_mask"):
        m = re.search(r"let\s+%s\s*:\s*\[u8;\s*8\]\s*=\s*\[([^\]]*)\]" % nm, src)
        if not m:
            raise ConstError(f"{nm} not found in info_hash.rs")
        vals = [int(x.strip(), 0) for x in m.group(1).split(",") if x.strip()]
        if len(vals) != 8:
            raise ConstError(f"{nm}: expected 8 entries")
        C["bep42_" + nm] = vals
    env_ih = {"INFO_HASH_LEN": C["info_hash_len"], "NODE_ID_LEN": C["info_hash_len"]}

    # storage.rs
    d, _ = eval_consts(read("src/storage.rs"))
    C["storage_max_items_stored"] = need(d, "MAX_ITEMS_STORED", "storage.rs")
    C["storage_expiration_time"] = need(d, "EXPIRATION_TIME", "storage.rs")

    # token.rs
    d, _ = eval_consts(read("src/token.rs"), env_ih)
    C["token_refresh_interval"] = need(d, "REFRESH_INTERVAL", "token.rs")
    C["token_ipv4_secret_buffer_len"] = need(d, "IPV4_SECRET_BUFFER_LEN", "token.rs")
    C["token_ipv6_secret_buffer_len"] = need(d, "IPV6_SECRET_BUFFER_LEN", "token.rs")

    # node.rs
    src = strip_test_mod(read("src/node.rs"))
    d, _ = eval_consts(src)
    C["node_max_last_seen_mins"] = need(d, "MAX_LAST_SEEN_MINS", "node.rs")
    C["node_max_refresh_requests"] = need(d, "MAX_REFRESH_REQUESTS", "node.rs")
    m = re.search(
        r"fn\s+recently_requested_from.*?Duration::from_secs\((\d+)\)", src, re.S
    )
    if not m:
        raise ConstError("recently_requested_from window not found in node.rs")
    C["node_recently_requested"] = int(m.group(1)) * 10**9
    # every status window must be MAX_LAST_SEEN_MINS * 60 s
    uses = re.findall(r"Duration::from_secs\(MAX_LAST_SEEN_MINS\s*\*\s*60\)", src)
    if len(uses) < 3:
        raise ConstError("node.rs: expected 3 uses of MAX_LAST_SEEN_MINS * 60")
    C["node_max_last_seen"] = C["node_max_last_seen_mins"] * 60 * 10**9

    # bucket.rs / table.rs
    d, _ = eval_consts(read("src/bucket.rs"), env_ih)
    C["bucket_max_bucket_size"] = need(d, "MAX_BUCKET_SIZE", "bucket.rs")
    d, _ = eval_consts(read("src/table.rs"), env_ih)
    C["table_max_buckets"] = need(d, "MAX_BUCKETS", "table.rs")

    # lookup.rs
    d, _ = eval_consts(read("src/action/lookup.rs"), env_ih)
    for n in ("LOOKUP_TIMEOUT", "ENDGAME_TIMEOUT", "ANNOUNCE_PICK_NUM", "INITIAL_PICK_NUM",
              "ITERATIVE_PICK_NUM"):
        C["lookup_" + n.lower()] = need(d, n, "lookup.rs")

    # refresh.rs
    d, _ = eval_consts(read("src/action/refresh.rs"))
    C["refresh_interval_timeout"] = need(d, "REFRESH_INTERVAL_TIMEOUT", "refresh.rs")
    C["refresh_concurrency"] = need(d, "REFRESH_CONCURRENCY", "refresh.rs")

    # bootstrap.rs
    src = strip_test_mod(read("src/action/bootstrap.rs"))
    d, _ = eval_consts(src)
    for n in ("INITIAL_TIMEOUT", "NODE_TIMEOUT", "NO_NETWORK_TIMEOUT", "PERIODIC_CHECK_TIMEOUT",
              "GOOD_NODE_THRESHOLD", "PINGS_PER_BUCKET", "MAX_INITIAL_RESPONSES"):
        C["bootstrap_" + n.lower()] = need(d, n, "bootstrap.rs")
    C["bootstrap_backoff_base"] = need(d, "BASE", "bootstrap.rs")
    m = re.search(r"\(bootstrap_attempt\s*\+\s*1\)\.min\((\d+)\)", src)
    if not m:
        raise ConstError("bootstrap back-off cap not found")
    C["bootstrap_backoff_cap"] = int(m.group(1))
    m = re.search(r"Duration::from_millis\(([\d_]+)\s*/\s*(\d+)\)", src)
    if not m:
        raise ConstError("nat_friendly_send_duration not found")
    C["bootstrap_nat_friendly"] = (int(m.group(1).replace("_", "")) // int(m.group(2))) * 10**6

    # transaction.rs
    d, _ = eval_consts(read("src/transaction.rs"))
    for n in ("TRANSACTION_ID_BYTES", "ACTION_ID_BYTES", "MESSAGE_ID_BYTES", "ACTION_ID_SHIFT",
              "MAX_ACTION_ID", "MESSAGE_ID_SHIFT", "MAX_MESSAGE_ID", "ACTION_ID_PREALLOC_LEN",
              "MESSAGE_ID_PREALLOC_LEN"):
        C["txn_" + n.lower()] = need(d, n, "transaction.rs")

    # handler.rs: the take(N) of find_closest_nodes
    src = strip_test_mod(read("src/handler.rs"))
    m = re.search(r"fn\s+find_closest_nodes(.*?)\n    }\n", src, re.S)
    if not m:
        raise ConstError("find_closest_nodes not found in handler.rs")
    takes = re.findall(r"\.take\((\d+)\)", m.group(1))
    if len(takes) != 2:
        raise ConstError("handler.rs: expected two .take(N) in find_closest_nodes")
    C["handler_nodes_take_v4"] = int(takes[0])
    C["handler_nodes_take_v6"] = int(takes[1])

    d, _ = eval_consts(src)
    C["handler_max_datagram_len"] = need(d, "MAX_DATAGRAM_LEN", "handler.rs")
    C["handler_reply_overhead_len"] = need(d, "REPLY_OVERHEAD_LEN", "handler.rs")
    m = re.search(r"fn\s+max_values_in_reply.*?budget\s*/\s*if\s+ipv6\s*\{\s*(\d+)\s*\}\s*else\s*\{\s*(\d+)\s*\}", src, re.S)
    if not m:
        raise ConstError("max_values_in_reply per-value sizes not found in handler.rs")
    C["handler_value_len_v6"] = int(m.group(1))
    C["handler_value_len_v4"] = int(m.group(2))

    # compact.rs
    d, _ = eval_consts(read("src/compact.rs"), env_ih)
    C["compact_socket_addr_v4_len"] = need(d, "SOCKET_ADDR_V4_LEN", "compact.rs")
    C["compact_socket_addr_v6_len"] = need(d, "SOCKET_ADDR_V6_LEN", "compact.rs")

    # message.rs error codes
    d, _ = eval_consts(read("src/message.rs"))
    for n in ("GENERIC_ERROR", "SERVER_ERROR", "PROTOCOL_ERROR", "METHOD_UNKNOWN"):
        C["message_" + n.lower()] = need(d, n, "message.rs")

    # bencode.rs nesting cap of the precheck pass
    d, _ = eval_consts(read("src/bencode.rs"))
    C["bencode_max_depth"] = need(d, "MAX_DEPTH", "bencode.rs")

    # socket.rs receive buffer
    src = strip_test_mod(read("src/socket.rs"))
    m = re.search(r"let\s+mut\s+buffer\s*=\s*vec!\[0u8;\s*(\d+)\]", src)
    if not m:
        raise ConstError("receive buffer size not found in socket.rs")
    C["socket_recv_buffer"] = int(m.group(1))
    return C


DURATIONS = {
    "storage_expiration_time", "token_refresh_interval", "node_recently_requested",
    "node_max_last_seen", "lookup_lookup_timeout", "lookup_endgame_timeout",
    "refresh_interval_timeout", "bootstrap_initial_timeout", "bootstrap_node_timeout",
    "bootstrap_no_network_timeout", "bootstrap_periodic_check_timeout", "bootstrap_nat_friendly",
}


def render(C):
    lines = [
        "(* GENERATED by tools/gen_consts.py from /repo's working tree -- do not edit. *)",
        "(* Durations are in nanoseconds. *)",
        "From Coq Require Import ZArith NArith List.",
        "Import ListNotations.",
    ]
    for k in sorted(C):
        v = C[k]
        if isinstance(v, list):
            lines.append("Definition %s : list N := [%s]%%N." % (k, "; ".join(str(x) for x in v)))
        else:
            unit = " (* ns *)" if k in DURATIONS else ""
            lines.append("Definition %s : Z := %d%%Z.%s" % (k, v, unit))
            lines.append("Definition %s_N : N := %d%%N." % (k, v))
            if v <= 5000:
                lines.append("Definition %s_nat : nat := %d%%nat." % (k, v))
    return "\n".join(lines) + "\n"


def main():
    out = sys.argv[1] if len(sys.argv) > 1 else "/verif/coq/gen/Consts.v"
    try:
        text = render(gather())
    except (ConstError, OSError) as e:
        print(f"gen_consts: BROKEN TIE: {e}", file=sys.stderr)
        return 2
    old = None
    if os.path.exists(out):
        with open(out) as f:
            old = f.read()
    if old != text:
        os.makedirs(os.path.dirname(out), exist_ok=True)
        with open(out, "w") as f:
            f.write(text)
        print("gen_consts: wrote", out)
    return 0


if __name__ == "__main__":
    sys.exit(main())
