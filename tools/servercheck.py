"""Observation-level checker of the serving node's token / announce / peer-store discipline (handler clauses of C06, C07,
C01), computed from the datagrams the real node received and sent -- independent of the Coq model.

For a serving node it replays, in handling order, every get_peers and announce_peer it handled together with the reply it sent:
  * issued[ip] = tokens handed to that IP with the time of issue;
  * an announce_peer is acknowledged (or answered 202) only if its token was issued to the same IP at most 30 min earlier
    (20 min of validity + granularity: C06 says dead by 30 min), and is NOT refused with 203 if it was issued to that IP
    at most 10 min earlier;
  * stored[ih] = contacts of acknowledged announces with the time of the last acknowledgement;
  * the values of every get_peers reply are exactly the same-family contacts acknowledged less than 24 h ago
    (when they fit the cap: if the reply holds fewer values than are alive, it must be because of the datagram cap, i.e. at
    least `min_cap` values), never a contact whose announce was refused, expired (>= 24 h) or never made.
"""
from nodeprop import parse_rendered, render_map, split_list

S = 10**9
MIN = 60 * S
DAY = 24 * 3600 * S


def contact_txt(src, port):
    f = "6" if src.v6 else "4"
    ip = ("%032x" if src.v6 else "%08x") % src.ip
    return "%s:%s:%d" % (f, ip, src.port if port in (None, "-") else int(port))


def check(sc, log, tr, min_cap=30):
    if sc.node["ro"]:
        return []
    import comp
    consts = comp.read_consts()
    max_len = consts.get("handler_max_datagram_len", 1500)
    overhead = consts.get("handler_reply_overhead_len", 700)
    vlen = {False: consts.get("handler_value_len_v4", 8), True: consts.get("handler_value_len_v6", 21)}
    rm = render_map(log)
    issued = {}      # (v6, ip) -> {token_hex: time of last issue}
    stored = {}      # ih -> {contact: time of last ack}
    out = []
    for e in tr.events:
        if e["kind"] != "EV_MSG":
            continue
        req = parse_rendered(rm.get(e["hex"]))
        if req is None or req["y"] != "q" or req["q"] not in ("get_peers", "announce_peer"):
            continue
        sends = [o for o in e["out"] if o[0] == "send"]
        if len(sends) != 1:
            continue        # C05's business
        rep = parse_rendered(rm.get(sends[0][2]))
        if rep is None:
            continue
        t = e["t"]
        src = e["src"]
        ipk = (src.v6, src.ip)
        if req["q"] == "get_peers":
            if rep["y"] != "r":
                continue
            tok = rep.get("token", "-")
            if tok != "-":
                issued.setdefault(ipk, {})[tok] = t
            vals = split_list(rep.get("values"))
            alive = [c for c, ta in stored.get(req["ih"], {}).items() if t - ta < DAY and c.startswith("6:") == src.v6]
            for v in vals:
                if v not in alive:
                    why = "never acknowledged"
                    ta = stored.get(req["ih"], {}).get(v)
                    if ta is not None:
                        why = "acknowledged %d ns ago (>= 24 h)" % (t - ta)
                    out.append({"kind": "get_peers reply contains a contact that is not a live acknowledged announce", "time": t,
                                "contact": v, "why": why, "info_hash": req["ih"]})
                    break
            if len(set(vals)) != len(vals):
                out.append({"kind": "get_peers reply lists a contact twice", "time": t, "values": vals[:10]})
            missing = [c for c in alive if c not in vals]
            # the cap of the reply: what fits beside the fixed overhead and the echoed transaction id (read from the source's
            # constants; it shrinks to 0 for very long ids)
            cap = max(0, max_len - overhead - len(req["t"]) // 2) // vlen[src.v6]
            if missing and len(vals) < min(cap, min_cap):
                out.append({"kind": "get_peers reply omits a live acknowledged contact although the reply is not full", "time": t,
                            "missing": missing[:5], "values": len(vals), "info_hash": req["ih"]})
        else:
            tok = req.get("token", "")
            when = issued.get(ipk, {}).get(tok)
            acked = rep["y"] == "r"
            refused = rep["y"] == "e" and rep.get("code") == "203"
            if (acked or (rep["y"] == "e" and rep.get("code") == "202")) and (when is None or t - when > 30 * MIN):
                out.append({"kind": "announce_peer accepted with a token that was not issued to this IP in the last 30 min", "time": t,
                            "token": tok, "issued_at": when, "reply": rm.get(sends[0][2])})
            if refused and when is not None and t - when <= 10 * MIN and len(tok) == 40:
                out.append({"kind": "announce_peer refused although its token was issued to this IP at most 10 min ago", "time": t,
                            "token": tok, "issued_at": when})
            if acked:
                stored.setdefault(req["ih"], {})[contact_txt(src, req.get("port", "-"))] = t
    return out[:3]
