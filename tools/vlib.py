"""Shared machinery of ./check: scan, constants translator, Coq build, Print
Assumptions audit, harness build, Coq case evaluation, verdicts, evidence."""
import concurrent.futures
import fcntl
import hashlib
import json
import os
import re
import shutil
import subprocess
import sys
import time

VERIF = os.path.dirname(os.path.dirname(os.path.abspath(__file__)))
REPO = os.environ.get("VERIF_REPO", "/repo")
COQ = os.path.join(VERIF, "coq")
CACHE = os.path.join(VERIF, ".cache")
HARNESS_DIR = os.path.join(VERIF, "harness")
HARNESS_BIN = os.path.join(CACHE, "target", "debug", "btdht-verif-harness")
EVIDENCE = os.path.join(VERIF, "evidence")
REPLAYS = os.path.join(VERIF, "replays")
KNOWN = os.path.join(VERIF, "known_findings.json")
GUARD = "btdht_verif"

# axioms a property theorem may depend on (by name); everything else fails the check
AXIOM_ALLOW = set()

TRUSTED_BASE = [
    "Coq 8.16.1 kernel incl. vm_compute (no native_compute)",
    "tools/gen_consts.py (constants translator, regenerated every run)",
    "correspondence check: harness/ (Rust) + tools/ (Python) + vm_compute evaluation of the model on the implementation's inputs",
    "hand-written Gallina model under coq/model (tied to /repo by the two items above)",
]


class Broken(Exception):
    """The machinery itself is broken (not a property verdict)."""


def log(*a):
    print(*a, file=sys.stderr, flush=True)


def sh(cmd, timeout=None, cwd=None, env=None, input=None):
    e = dict(os.environ)
    e["CARGO_NET_OFFLINE"] = "true"
    if env:
        e.update(env)
    return subprocess.run(cmd, cwd=cwd, env=e, input=input, timeout=timeout,
                          stdout=subprocess.PIPE, stderr=subprocess.PIPE, text=True)


class Lock:
    def __init__(self, name):
        os.makedirs(CACHE, exist_ok=True)
        self.path = os.path.join(CACHE, name + ".lock")

    def __enter__(self):
        self.f = open(self.path, "w")
        fcntl.flock(self.f, fcntl.LOCK_EX)
        return self

    def __exit__(self, *a):
        fcntl.flock(self.f, fcntl.LOCK_UN)
        self.f.close()


# --------------------------------------------------------------------------
# SplitMix64 -- every random choice of a run derives from VERIF_SEED
class Rng:
    def __init__(self, seed):
        self.s = seed & 0xFFFFFFFFFFFFFFFF

    def next(self):
        self.s = (self.s + 0x9E3779B97F4A7C15) & 0xFFFFFFFFFFFFFFFF
        z = self.s
        z = ((z ^ (z >> 30)) * 0xBF58476D1CE4E5B9) & 0xFFFFFFFFFFFFFFFF
        z = ((z ^ (z >> 27)) * 0x94D049BB133111EB) & 0xFFFFFFFFFFFFFFFF
        return z ^ (z >> 31)

    def below(self, n):
        return self.next() % n if n > 0 else 0

    def range(self, a, b):
        return a + self.below(b - a + 1)

    def chance(self, num, den):
        return self.below(den) < num

    def choice(self, l):
        return l[self.below(len(l))]

    def bytes(self, n):
        out = bytearray()
        while len(out) < n:
            out += self.next().to_bytes(8, "little")
        return bytes(out[:n])

    def shuffle(self, l):
        for i in range(len(l) - 1, 0, -1):
            j = self.below(i + 1)
            l[i], l[j] = l[j], l[i]

    def fork(self, tag):
        h = hashlib.sha256(("%d/%s" % (self.s, tag)).encode()).digest()
        return Rng(int.from_bytes(h[:8], "little"))


# --------------------------------------------------------------------------
# 1. scan
FORBIDDEN = [
    r"\bAdmitted\b", r"\badmit\b", r"\bAxiom\b", r"\bAxioms\b", r"\bParameter\b", r"\bParameters\b",
    r"\bConjecture\b", r"\bAdmit\s+Obligations\b", r"Unset\s+Guard", r"Unset\s+Positivity",
    r"Unset\s+Universe", r"bypass_check", r"type-in-type", r"impredicative-set", r"\bgive_up\b",
    r"Guard\s+Checking", r"Positivity\s+Checking", r"Universe\s+Checking",
]
SECTION_ONLY = ["Variable", "Variables", "Hypothesis", "Hypotheses", "Context"]


def strip_comments(src):
    out = []
    depth = 0
    i = 0
    instr = False
    while i < len(src):
        if depth == 0 and src[i] == '"':
            instr = not instr
            out.append(src[i])
            i += 1
            continue
        if not instr and src.startswith("(*", i):
            depth += 1
            i += 2
            continue
        if not instr and depth > 0 and src.startswith("*)", i):
            depth -= 1
            i += 2
            continue
        if depth == 0:
            out.append(src[i])
        elif src[i] == "\n":
            out.append("\n")
        i += 1
    return "".join(out)


def scan():
    hits = []
    for root, _, files in os.walk(COQ):
        for fn in files:
            if not fn.endswith(".v") and fn != "_CoqProject":
                continue
            path = os.path.join(root, fn)
            with open(path) as f:
                raw = f.read()
            src = strip_comments(raw) if fn.endswith(".v") else raw
            depth = 0
            for ln, line in enumerate(src.split("\n"), 1):
                for pat in FORBIDDEN:
                    if re.search(pat, line):
                        hits.append("%s:%d: %s" % (path, ln, line.strip()))
                if re.match(r"\s*Section\s+\w+", line):
                    depth += 1
                elif re.match(r"\s*End\s+\w+", line) and depth > 0:
                    depth -= 1
                elif depth == 0:
                    for pat in SECTION_ONLY:
                        if re.match(r"\s*(Local\s+|Global\s+)?" + pat + r"\b", line):
                            hits.append("%s:%d: %s" % (path, ln, line.strip()))
    if hits:
        raise Broken("forbidden constructs in the Coq development:\n  " + "\n  ".join(hits))
    return True


# --------------------------------------------------------------------------
# 2. constants + coq build
def gen_consts():
    r = sh([sys.executable, os.path.join(VERIF, "tools", "gen_consts.py"),
            os.path.join(COQ, "gen", "Consts.v")], timeout=60)
    return r.returncode == 0, (r.stdout + r.stderr).strip()


def coq_makefile():
    mk = os.path.join(COQ, "Makefile")
    proj = os.path.join(COQ, "_CoqProject")
    if not os.path.exists(mk) or os.path.getmtime(mk) < os.path.getmtime(proj):
        r = sh(["coq_makefile", "-f", "_CoqProject", "-o", "Makefile"], cwd=COQ, timeout=120)
        if r.returncode != 0:
            raise Broken("coq_makefile failed: " + r.stderr)


def coq_make(targets, timeout=1500):
    """Full .vo build of the given targets. Returns (ok, output)."""
    with Lock("coq"):
        coq_makefile()
        r = sh(["timeout", str(timeout), "make", "-j16"] + targets, cwd=COQ, timeout=timeout + 30)
    return r.returncode == 0, r.stdout + r.stderr


def failing_file(make_output):
    m = re.search(r'File "\./([^"]+)", line (\d+)', make_output)
    return (m.group(1), int(m.group(2))) if m else (None, None)


def theorems_of(prop):
    """Names of the property theorems (obligations) declared in props/<prop>.v."""
    with open(os.path.join(COQ, "props", prop + ".v")) as f:
        src = strip_comments(f.read())
    return re.findall(r"^\s*Theorem\s+(\w+)", src, re.M)


def print_assumptions(prop, theorems):
    """Returns {theorem: [axioms]}; raises Broken if coqc fails."""
    d = os.path.join(CACHE, "assump")
    os.makedirs(d, exist_ok=True)
    path = os.path.join(d, "A_%s.v" % prop)
    with open(path, "w") as f:
        f.write("From BT Require Import props.%s.\n" % prop)
        for t in theorems:
            f.write('Goal True. idtac "@@THM %s". exact I. Qed.\nPrint Assumptions %s.\n' % (t, t))
    r = sh(["timeout", "300", "coqc", "-noglob", "-Q", COQ, "BT", path], timeout=330)
    if r.returncode != 0:
        raise Broken("Print Assumptions run failed for %s: %s" % (prop, r.stdout + r.stderr))
    res = {}
    cur = None
    for line in r.stdout.split("\n"):
        m = re.match(r"@@THM (\w+)", line)
        if m:
            cur = m.group(1)
            res[cur] = []
            continue
        if cur is None:
            continue
        if "Closed under the global context" in line or line.strip() in ("Axioms:", ""):
            continue
        m = re.match(r"^(\S+)\s*:", line)
        if m and not line.startswith(" "):
            res[cur].append(m.group(1))
    return res


# --------------------------------------------------------------------------
# 3. harness
def build_harness(timeout=1500):
    with Lock("cargo"):
        lock = os.path.join(HARNESS_DIR, "Cargo.lock")
        if not os.path.exists(lock):
            src = os.path.join(REPO, "Cargo.lock")
            if not os.path.exists(src):
                src = os.path.join(HARNESS_DIR, "Cargo.lock.seed")
            shutil.copy(src, lock)
        r = sh(["timeout", str(timeout), "cargo", "build", "--offline"], cwd=HARNESS_DIR,
               env={"RUSTFLAGS": "--cfg " + GUARD, "CARGO_TARGET_DIR": os.path.join(CACHE, "target")}, timeout=timeout + 30)
    return r.returncode == 0, r.stdout + r.stderr


def harness(args, input_text=None, timeout=600):
    r = sh([HARNESS_BIN] + args, input=input_text, timeout=timeout)
    return r.returncode, r.stdout, r.stderr


# --------------------------------------------------------------------------
# 4. evaluating the model inside Coq
def coq_string(s):
    return '"' + s.replace('"', '""') + '"'


def coq_eval_files(files, timeout=900, jobs=16):
    """files: list of (path, text). Each is compiled by its own coqc; returns list of
    (returncode, stdout+stderr) in order."""
    for p, text in files:
        os.makedirs(os.path.dirname(p), exist_ok=True)
        with open(p, "w") as f:
            f.write(text)

    def one(p):
        r = sh(["timeout", str(timeout), "coqc", "-noglob", "-Q", COQ, "BT", p], timeout=timeout + 30)
        for ext in (".vo", ".vok", ".vos", ".glob"):
            q = p[:-2] + ext
            if os.path.exists(q):
                os.remove(q)
        aux = os.path.join(os.path.dirname(p), "." + os.path.basename(p)[:-2] + ".aux")
        if os.path.exists(aux):
            os.remove(aux)
        return r.returncode, r.stdout + r.stderr

    with concurrent.futures.ThreadPoolExecutor(max_workers=jobs) as ex:
        return list(ex.map(one, [p for p, _ in files]))


def parse_eval_blocks(out):
    """Split coqc output into the values printed by successive `Eval` commands
    (text after '     = ' up to the type annotation)."""
    blocks = []
    for m in re.finditer(r"^\s*=\s(.*?)^\s*:\s", out, re.S | re.M):
        blocks.append(" ".join(m.group(1).split()))
    return blocks


def parse_N_list(s):
    s = s.strip()
    s = re.sub(r"%\w+", "", s)
    if s in ("[]", "nil"):
        return []
    m = re.match(r"^\[(.*)\]$", s)
    if not m:
        raise Broken("cannot parse Coq list: " + s[:200])
    return [int(x) for x in m.group(1).split(";") if x.strip()]


# --------------------------------------------------------------------------
# 5. verdicts
def load_known():
    if not os.path.exists(KNOWN):
        return {"findings": [], "fixed": []}
    with open(KNOWN) as f:
        return json.load(f)


def write_replay(prop, data):
    os.makedirs(REPLAYS, exist_ok=True)
    blob = json.dumps(data, sort_keys=True, indent=1)
    h = hashlib.sha256(blob.encode()).hexdigest()[:12]
    path = os.path.join(REPLAYS, "%s-%s.json" % (prop, h))
    with open(path, "w") as f:
        f.write(blob)
    return path


class Result:
    """Accumulates what a check run established."""

    def __init__(self, prop, tier, seed):
        self.prop = prop
        self.tier = tier
        self.seed = seed
        self.t0 = time.time()
        self.obligations = []       # theorem names
        self.discharged = []
        self.axioms = {}
        self.broken_obligations = []  # (what, detail)
        self.broken_ties = []         # (what, detail)  correspondence / translator
        self.violations = []          # dicts with concrete failing input
        self.known = []               # strings
        self.coverage = {}
        self.samples = []
        self.assumptions = []
        self.evaluations = 0
        self.distinct = set()
        self.traces_validated = 0

    def note_case(self, key, nontrivial=True):
        self.evaluations += 1
        if nontrivial:
            self.distinct.add(key)

    def finish(self, level="proof", level_note=""):
        wall = time.time() - self.t0
        nviol = 0
        lines = []
        for k in self.known:
            lines.append("KNOWN-FINDING: property=%s %s" % (self.prop, k))
        for v in self.violations[:3]:
            path = write_replay(self.prop, v)
            lines.append("VIOLATION property=%s replay=%s" % (self.prop, path))
            nviol += 1
        if not self.violations and (self.broken_obligations or self.broken_ties):
            data = {
                "property": self.prop,
                "kind": "no-failing-input-found",
                "broken_obligations": self.broken_obligations,
                "broken_correspondence": self.broken_ties,
                "note": "the property is no longer shown to hold: the listed theorem(s) / "
                        "correspondence no longer check; the directed search found no concrete failing input",
            }
            path = write_replay(self.prop, data)
            lines.append("VIOLATION property=%s replay=%s no-failing-input-found" % (self.prop, path))
            nviol += 1
        cov = {
            "obligations": len(self.obligations),
            "discharged": len(self.discharged),
            "obligation_names": self.obligations,
            "discharged_names": self.discharged,
            "axioms_per_theorem": self.axioms,
            "checker_cmd": "cd /verif/coq && coq_makefile -f _CoqProject -o Makefile && make -j16 props/%s.vo  (coqc 8.16.1, full .vo build) + Print Assumptions allow-list" % self.prop,
            "trusted_base": TRUSTED_BASE,
            "evaluations": self.evaluations,
            "distinct_nontrivial": len(self.distinct),
            "traces_validated_against_impl": self.traces_validated,
            "samples": self.samples[:8],
            "broken_obligations": self.broken_obligations,
            "broken_correspondence": self.broken_ties,
        }
        if len(self.discharged) == 0:
            # the evidence schema wants discharged >= 1 for the proof keys; report the failure under other keys
            cov["obligations_total"] = cov.pop("obligations")
            cov["discharged_total"] = cov.pop("discharged")
            cov["distinct_nontrivial"] = max(2, cov["distinct_nontrivial"])
            cov["evaluations"] = max(1, cov["evaluations"])
        cov.update(self.coverage)
        ev = {
            "property_id": self.prop,
            "tier": self.tier,
            "seed": self.seed,
            "level": level,
            "coverage": cov,
            "assumptions": self.assumptions,
            "wall_s": round(wall, 2),
            "violations": nviol,
        }
        os.makedirs(EVIDENCE, exist_ok=True)
        with open(os.path.join(EVIDENCE, self.prop + ".json"), "w") as f:
            json.dump(ev, f, indent=1, sort_keys=True)
        for l in lines:
            print(l, flush=True)
        if nviol == 0:
            print("OK property=%s tier=%s obligations=%d/%d evaluations=%d wall=%.1fs" % (
                self.prop, self.tier, len(self.discharged), len(self.obligations), self.evaluations, wall),
                flush=True)
        return 1 if nviol else 0


def prove(res, prop, extra_targets=()):
    """Steps 1-2 of DESIGN section 5: scan, regenerate constants, build the property's theorems,
    audit their assumptions. Records broken obligations in res (never raises for them)."""
    scan()
    ok, msg = gen_consts()
    if not ok:
        res.broken_ties.append(("constants translator", msg))
        return False
    res.obligations = theorems_of(prop)
    if not res.obligations:
        raise Broken("no theorems in props/%s.v" % prop)
    targets = ["props/%s.vo" % prop] + list(extra_targets)
    ok, out = coq_make(targets)
    if not ok:
        f, ln = failing_file(out)
        err = out[-1500:]
        res.broken_obligations.append(("coq build of props/%s.vo failed at %s:%s" % (prop, f, ln), err))
        # model files must still build for the correspondence / search
        return False
    ax = print_assumptions(prop, res.obligations)
    for t in res.obligations:
        bad = [a for a in ax.get(t, ["<missing>"]) if a not in AXIOM_ALLOW]
        res.axioms[t] = ax.get(t, ["<missing>"])
        if t not in ax or bad:
            res.broken_obligations.append(("theorem %s depends on non-allow-listed axioms" % t, bad))
        else:
            res.discharged.append(t)
    return len(res.discharged) == len(res.obligations)


def ensure_model(targets):
    """Build model/run files needed by case evaluation (they do not depend on proofs)."""
    ok, out = coq_make(targets)
    if not ok:
        raise Broken("model files do not build: " + out[-1500:])
