"""C15 -- bootstrap completes when it can, tells every waiter, never kills the node."""
import re

import nodegen
import nodeprop
from simlib import S, MS

PROP = "C15"
NOTE = ("theorems: the registry assertion of the first bootstrap round cannot fail with the repaired contact list; waiter "
        "bookkeeping of the handler model; back-off bounds. The attempt loop's timing is decided on simulated runs of the real "
        "node under outages (partial)")
MIN = 60 * S


def checker(sc, meta, log, tr):
    out = []
    calls, booted = {}, {}
    first_answer = None
    wire_from_node = 0
    naddr = sc.node["addr"].script()
    for (t, kind, body) in log:
        if kind == "PANIC":
            out.append({"kind": "panic", "time": t, "what": body[:200]})
        elif kind == "BOOT_CALL":
            calls[body.split()[0]] = t
        elif kind == "BOOTED":
            tag, ok = body.split()
            booted[tag] = (t, ok == "1")
        elif kind == "TO_BOOTSTRAP" and first_answer is None:
            first_answer = t
        elif kind == "WIRE" and body.startswith(naddr + " "):
            wire_from_node += 1
        elif kind in ("API_STATE", "API_LOCALADDR", "API_CONTACTS"):
            if body.endswith("NONE") or body.endswith("HANG") or body.endswith("ERR"):
                out.append({"kind": "API call not answered: the node is dead", "time": t, "what": body})
            elif kind == "API_CONTACTS":
                listed = body.replace("good=", ",").replace("questionable=", ",").replace(" ", ",").split(",")
                for r in sc.node["routers"]:
                    if r.script() in listed:
                        out.append({"kind": "a router address is listed as a contact", "time": t, "router": r.script()})
    kind = meta["kind"]
    if kind == "none":
        if wire_from_node:
            out.append({"kind": "a node without contacts sent datagrams", "count": wire_from_node})
        for tag, t0 in calls.items():
            if tag not in booted or booted[tag][0] != t0 or not booted[tag][1]:
                out.append({"kind": "a node without contacts did not report bootstrapped immediately", "tag": tag})
    else:
        for tag, (t, ok) in booted.items():
            if ok and (first_answer is None or t < first_answer):
                out.append({"kind": "bootstrapped() resolved before any contact had answered", "tag": tag, "time": t})
    if kind in ("plain", "many") and meta["has_normal"]:
        # plain nodes, one of them responsive from tau on: every waiter resolves true within ~11 min of tau
        limit = meta["tau"] + 11 * MIN
        for tag, t0 in calls.items():
            if t0 > meta["end"] - 11 * MIN and tag != "wlate":
                continue
            if tag not in booted:
                if tag != "wlate" or True:
                    out.append({"kind": "a bootstrapped() caller was never told", "tag": tag, "called": t0, "tau": meta["tau"]})
            elif not booted[tag][1]:
                out.append({"kind": "bootstrapped() resolved false", "tag": tag})
            elif booted[tag][0] > max(meta["tau"], t0) + 11 * MIN:
                # (a caller arriving while a periodic re-bootstrap is under way waits for that round: bounded by the same 11 min)
                out.append({"kind": "bootstrapped() resolved later than 11 min after a contact became responsive",
                            "tag": tag, "at": booted[tag][0], "tau": meta["tau"]})
    return out


def gen(rng, consts, i):
    return nodegen.gen_bootstrap(rng, consts)


def run(res):
    return nodeprop.run(
        res, PROP, NOTE, gen, checker, 20, 400,
        "builder configurations: no contacts; 1-5 or 12-40 plain nodes; nodes overlapping with routers; routers only; only silent/"
        "error/garbage contacts - with outages of 3 s .. 2 h before a contact becomes responsive (continuous or flapping) and 0-5 "
        "concurrent bootstrapped() callers at random times; the checker reads panics, API liveness (state, local_addr, contacts), "
        "resolution times of every caller, datagram counts. Every handler event is replayed through the Coq handler model and every received datagram's routing (pending bootstrap exchange / handler / dropped) through the Coq socket model. distinct = "
        "distinct scenarios.",
        ["the bootstrap attempt loop is exercised, not modelled (only its registry, contact list, back-off and the socket demultiplexer are)"],
        validate=True, max_validate_events=900, socket_replay=True)


def replay(path):
    return nodeprop.replay(PROP, path, None)
