"""C20 -- ids derived from an IP address satisfy BEP42."""
import json
import os

import vlib
from vlib import Rng, Broken

PROP = "C20"
LEVEL_NOTE = ("theorem c20_from_ip_valid over the Gallina model of from_ip (all addresses, all draws); "
              "model tied to src/info_hash.rs by byte-for-byte agreement on the ids the real from_ip produced")


def gen_ips(rng, tier):
    """IPv4: classes of mask-relevant bits (mask 0x030f3fff -> 20 bits) with random remaining
    bits; IPv6: random /64 prefixes (+ boundary patterns)."""
    if tier == "quick":
        n4, n6 = 4096, 1024
    else:
        n4, n6 = 1 << 18, 1 << 14
    v4 = []
    boundary4 = ["00000000", "ffffffff", "7c1f4b15", "154b1f7c", "411733aa", "547c490e", "2bd53553",
                 "030f3fff", "fcf0c000", "7f000001", "0a000001", "c0a80001"]
    v4 += boundary4
    total_classes = 1 << 20
    step = max(1, total_classes // n4)
    off = rng.below(step)
    for k in range(n4):
        cls = (k * step + off) % total_classes
        # spread the 20 class bits over mask positions 0x03 0x0f 0x3f 0xff
        b0 = (cls >> 18) & 0x03
        b1 = (cls >> 14) & 0x0F
        b2 = (cls >> 8) & 0x3F
        b3 = cls & 0xFF
        r = rng.next()
        o = [b0 | (r & 0xFC), b1 | ((r >> 8) & 0xF0), b2 | ((r >> 16) & 0xC0), b3]
        v4.append(bytes(o).hex())
    v6 = ["00" * 16, "ff" * 16, "20010db8000000000000000000000001", "0103070f1f3f7fff" + "00" * 8,
          "fefcf8f0e0c08000" + "ff" * 8]
    for _ in range(n6):
        v6.append(rng.bytes(16).hex())
    return v4, v6


def run_impl(ips):
    code, out, err = vlib.harness(["from_ip"], "\n".join(ips) + "\n", timeout=600)
    if code != 0:
        raise Broken("harness from_ip failed: " + err[-500:])
    pairs = []
    for line in out.split("\n"):
        if not line.strip():
            continue
        ip, idh = line.split()
        pairs.append((ip, idh))
    if len(pairs) != len(ips):
        raise Broken("harness from_ip: expected %d lines, got %d" % (len(ips), len(pairs)))
    return pairs


def case_files(pairs4, pairs6, tag):
    """Shard the cases over coqc processes. Returns [(path, text, ipw, pairs)]."""
    files = []
    d = os.path.join(vlib.CACHE, "cases")

    def shard(pairs, ipw, nshards):
        per = (len(pairs) + nshards - 1) // nshards if pairs else 0
        for s in range(nshards):
            part = pairs[s * per:(s + 1) * per]
            if not part:
                continue
            chunks = []
            for i in range(0, len(part), 128):
                chunks.append(vlib.coq_string("".join(ip + idh for ip, idh in part[i:i + 128])))
            text = ("From BT Require Import model.Prelude run.Run_Bep42.\n"
                    "Set Printing Width 1000000. Set Printing Depth 1000000.\n"
                    "Definition cases : list string := [\n%s\n]%%string.\n"
                    "Eval vm_compute in (run %d cases).\n" % (";\n".join(chunks), ipw))
            files.append((os.path.join(d, "c20_%s_v%d_%d.v" % (tag, ipw, s)), text, ipw, part))

    shard(pairs4, 4, 12 if len(pairs4) > 20000 else (4 if len(pairs4) > 2000 else 1))
    shard(pairs6, 16, 4 if len(pairs6) > 2000 else 1)
    return files


def evaluate(pairs4, pairs6, tag):
    """Returns (n_evaluated, mismatches, invalid) where the last two are lists of (ip, id)."""
    files = case_files(pairs4, pairs6, tag)
    outs = vlib.coq_eval_files([(p, t) for p, t, _, _ in files])
    mism, inval, n = [], [], 0
    for (p, _, ipw, part), (code, out) in zip(files, outs):
        if code != 0:
            raise Broken("coqc failed on %s: %s" % (p, out[-800:]))
        blocks = vlib.parse_eval_blocks(out)
        if len(blocks) != 1:
            raise Broken("unexpected coqc output for %s: %s" % (p, out[:500]))
        import re
        m = re.match(r"^\((\d+)(?:%N)?, (\[.*?\]|nil)(?:%N)?, (\[.*?\]|nil)(?:%N)?\)$", blocks[0])
        if not m:
            raise Broken("cannot parse result: " + blocks[0][:300])
        cnt = int(m.group(1))
        if cnt != len(part):
            raise Broken("case count mismatch in %s: %d vs %d" % (p, cnt, len(part)))
        n += cnt
        mism += [part[i] for i in vlib.parse_N_list(m.group(2))]
        inval += [part[i] for i in vlib.parse_N_list(m.group(3))]
    return n, mism, inval


def run(res):
    rng = Rng(res.seed).fork("c20")
    proved = vlib.prove(res, PROP, extra_targets=["run/Run_Bep42.vo"])
    if not proved:
        vlib.ensure_model(["run/Run_Bep42.vo"])
    ok, out = vlib.build_harness()
    if not ok:
        raise Broken("harness build failed: " + out[-1500:])
    v4, v6 = gen_ips(rng, res.tier)
    pairs4 = run_impl(v4)
    pairs6 = run_impl(v6)
    n, mism, inval = evaluate(pairs4, pairs6, "run")
    res.evaluations = n
    res.traces_validated = n
    # distinct non-trivial: distinct (masked address class, r) combinations
    def cls(ip, idh):
        b = bytes.fromhex(ip)
        mask = [0x03, 0x0F, 0x3F, 0xFF] if len(b) == 4 else [0x01, 0x03, 0x07, 0x0F, 0x1F, 0x3F, 0x7F, 0xFF]
        return (len(b), bytes(x & m for x, m in zip(b, mask)), int(idh[38:40], 16) & 7)
    res.distinct = set(cls(ip, idh) for ip, idh in pairs4 + pairs6)
    res.samples = [{"ip": ip, "id_from_real_from_ip": idh} for ip, idh in (pairs4[:3] + pairs6[:2])]
    res.coverage.update({
        "rule": "IPv4: one address per class of the 20 mask-relevant bits (stride over all 2^20 classes), random "
                "remaining bits, plus boundary addresses and the BEP42 vector addresses; IPv6: random addresses plus "
                "boundary prefixes. A case = (address, id returned by the real InfoHash::from_ip); distinct = distinct "
                "(masked octets, r = id[19]&7) triples. Each case is checked (a) model id == real id byte for byte "
                "with the draws read back from the id, (b) bep42_valid on the real id.",
        "input_distribution": {"ipv4": len(pairs4), "ipv6": len(pairs6)},
        "model_vs_impl_mismatches": len(mism),
        "impl_ids_failing_bep42": len(inval),
    })
    res.assumptions = ["the three rand::random draws are arbitrary bytes (explicit arguments of the model)",
                       "crc32c crate computes CRC32-C (checked differentially, not proved)"]
    for ip, idh in inval[:5]:
        res.violations.append({"property": PROP, "kind": "bep42-invalid-id", "ip": ip, "id": idh,
                               "how": "InfoHash::from_ip(ip) returned this id; bep42_valid ip id = false (evaluated in Coq)"})
    if mism and not inval:
        res.broken_ties.append(("correspondence from_ip: model id differs from implementation id on %d inputs" % len(mism),
                                [{"ip": ip, "id": idh} for ip, idh in mism[:5]]))
    return res.finish("proof", LEVEL_NOTE)


def replay(path):
    with open(path) as f:
        data = json.load(f)
    res = vlib.Result(PROP, "quick", 0)
    vlib.ensure_model(["run/Run_Bep42.vo"])
    ok, out = vlib.build_harness()
    if not ok:
        raise Broken("harness build failed")
    if data.get("kind") == "bep42-invalid-id":
        ip = data["ip"]
        # re-draw many ids for this address on the current tree
        pairs = run_impl([ip] * 256)
        p4 = pairs if len(ip) == 8 else []
        p6 = pairs if len(ip) == 32 else []
        n, mism, inval = evaluate(p4, p6, "replay")
        print("replay: %d ids drawn for %s, %d fail BEP42, %d differ from the model" % (n, ip, len(inval), len(mism)))
        if inval:
            print("VIOLATION property=%s replay=%s" % (PROP, path))
            return 1
        return 0
    print("replay file names broken obligations only; re-run ./check C20")
    return 0
