"""C05 -- each well-formed query gets exactly one correct reply; nothing else is answered."""
import comp
import nodegen
import nodeprop
from nodeprop import parse_rendered, render_map, split_list

PROP = "C05"
NOTE = ("theorems over handle_query / step of the Gallina handler model for all states and messages; tied to "
        "src/handler.rs by replaying the real handler's logged events through the model (exact outputs) and by "
        "the reply-discipline checker on the real node's datagrams")


def fam_of_addr_txt(a):
    return a.startswith("6:")


def checker(sc, meta, log, tr):
    """Reply discipline of the real node, from its handled events and the datagrams it sent."""
    rm = render_map(log)
    own = "%040x" % sc.node["id"]
    ro = sc.node["ro"]
    node_v6 = sc.node["addr"].v6
    out = []
    for e in tr.events:
        sends = [o for o in e["out"] if o[0] == "send"]
        if e["kind"] != "EV_MSG":
            for s in sends:
                d = parse_rendered(rm.get(s[2]))
                if d is None or d["y"] != "q":
                    out.append({"kind": "non-query datagram sent outside a reply", "time": e["t"], "event": e["kind"], "sent": rm.get(s[2])})
            continue
        req = parse_rendered(rm.get(e["hex"]))
        if req is None:
            continue
        if req["y"] != "q":
            for s in sends:
                d = parse_rendered(rm.get(s[2]))
                if d is None or d["y"] != "q":
                    out.append({"kind": "response/error answered", "time": e["t"], "received": rm.get(e["hex"]), "sent": rm.get(s[2])})
            continue
        if ro:
            if sends:
                out.append({"kind": "read-only node replied to a query", "time": e["t"], "received": rm.get(e["hex"])})
            continue
        if len(sends) != 1:
            out.append({"kind": "query got %d replies" % len(sends), "time": e["t"], "received": rm.get(e["hex"])})
            continue
        dst, hx = sends[0][1], sends[0][2]
        rep = parse_rendered(rm.get(hx))
        bad = None
        if dst.key() != e["src"].key():
            bad = "reply sent to another address"
        elif rep is None:
            bad = "undecodable reply"
        elif rep["t"] != req["t"]:
            bad = "transaction id not echoed"
        elif rep["y"] == "q":
            bad = "query sent as reply"
        elif rep["y"] == "r":
            if rep["id"] != own:
                bad = "reply does not carry the node's id"
            vals, n4, n6 = split_list(rep.get("values")), split_list(rep.get("nodes")), split_list(rep.get("nodes6"))
            tok = rep.get("token", "-")
            if req["q"] in ("ping", "announce_peer") and (vals or n4 or n6 or tok != "-"):
                bad = "%s reply carries values/nodes/token" % req["q"]
            if req["q"] == "find_node" and (vals or tok != "-"):
                bad = "find_node reply carries values/token"
            if req["q"] == "get_peers":
                if tok == "-" or len(tok) != 40:
                    bad = "get_peers reply without a 20-byte token"
                src6 = e["src"].v6
                if any(fam_of_addr_txt(v) != src6 for v in vals):
                    bad = "values of another address family"
            if req["q"] in ("find_node", "get_peers"):
                w = req.get("want", "-")
                want4 = w in ("n4", "both") or (w == "-" and not node_v6)
                want6 = w in ("n6", "both") or (w == "-" and node_v6)
                if (n4 and not want4) or (n6 and not want6):
                    bad = "nodes of a family that was not requested"
                if len(n4) > 8 or len(n6) > 8:
                    bad = "more than 8 nodes in a list"
        else:
            if req["q"] != "announce_peer" or rep.get("code") not in ("202", "203"):
                bad = "unexpected error reply"
        if bad:
            out.append({"kind": bad, "time": e["t"], "received": rm.get(e["hex"]), "sent": rm.get(hx)})
    # undecodable datagrams cause no traffic at all: they never become handler events, and no SEND may
    # be logged between their RECV and the next handler event
    return out


def gen(rng, consts, i):
    return nodegen.gen_server(rng, consts, many_peers=(i % 5 == 4), long_times=(i % 4 == 1))


def run(res):
    return nodeprop.run(
        res, PROP, NOTE, gen, checker, 16, 300,
        "family A scenarios: one real node (serving or read-only, IPv4 or IPv6, 0-5 bootstrap contacts that name further nodes) "
        "receives, from 2-6 virtual sources, every query kind x want in {-,n4,n6,both} x transaction ids of 0..32 random bytes, "
        "announces with the right token / another source's / bit-flipped / 19- and 21-byte / zero / empty tokens and explicit or "
        "implied ports, unsolicited responses, errors and garbage; time steps up to 30 min in quiet scenarios. Every handled event "
        "and its outputs are replayed through the Coq handler model; distinct = distinct scenarios; evaluations = handler events.",
        ["the socket family of the sources equals the node's (a UDP socket only receives its own family)"])


def replay(path):
    return nodeprop.replay(PROP, path, None)
