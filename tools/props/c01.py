"""C01 -- announced peers are found by every other node's search (end to end, 2..9 real nodes)."""
import nodegen
import nodeprop
import vlib
from simlib import S

PROP = "C01"
DAY = 24 * 3600 * S
KNOWN_ID = "F-C01-latency-band"
NOTE = ("server-contract theorem over the Gallina handler model (token issue -> announce accepted within 10 min -> contact "
        "returned by every get_peers for 24 h and by none afterwards, for all interleavings of other queries) composed from the "
        "token-store and peer-store refinement theorems; the network-level statement is decided on runs of 2..9 real nodes on "
        "the simulated network (virtual time, up to > 24 h), partial: the composition over the multi-node network is validated "
        "on these runs, not proved")

STATS = {"must_yield": 0, "must_not_yield": 0, "announces": 0, "searches": 0, "known_hits": 0, "slow_runs": 0}
KNOWN_EXAMPLE = []


def observations(log):
    calls, streams, ends = {}, {}, {}
    t_end = 0
    for (t, kind, body) in log:
        if kind == "SEARCH_CALL":
            tag, node, ih, ann = body.split()
            calls[tag] = (t, node, ih, ann == "1")
        elif kind == "STREAM":
            tag, a = body.split()
            streams.setdefault(tag, set()).add(a)
        elif kind == "STREAM_END":
            ends[body.strip()] = t
        elif kind == "END":
            t_end = t
    return calls, streams, ends, t_end


def contact_of(meta, node):
    nd = meta["nodes"][node]
    f, ip, port = nd["addr"].split(":")
    return "%s:%s:%d" % (f, ip, nd["aport"] if nd["aport"] is not None else int(port))


def checker(sc, meta, log, tr):
    calls, streams, ends, t_end = observations(log)
    listed = any(f.get("id") == KNOWN_ID for f in vlib.load_known().get("findings", []))
    slow = meta["band"] == "slow"
    out = []
    for tag, (t, node, ih, ann) in calls.items():
        if tag not in ends and t + 120 * S < t_end:
            out.append({"kind": "search never ended", "tag": tag, "node": node})
    announces = [(tag, c) for tag, c in calls.items() if c[3] and tag in ends]
    STATS["announces"] += len(announces)
    for stag, (ts, b, ih, _) in calls.items():
        if stag not in ends:
            continue
        STATS["searches"] += 1
        got = streams.get(stag, set())
        allowed = set()
        by_announcer = {}
        for atag, (ta, a, aih, _) in announces:
            if aih != ih:
                continue
            if ta <= ends[stag]:
                allowed.add(contact_of(meta, a))
            if a != b:
                by_announcer.setdefault(a, []).append((ta, ends[atag]))
        for a, anns in by_announcer.items():
            c = contact_of(meta, a)
            must = any(ea <= ts and ends[stag] <= ta + DAY for ta, ea in anns)
            started = [(ta, ea) for ta, ea in anns if ta <= ends[stag]]
            must_not = bool(started) and all(ea + 1 * S + DAY <= ts for ta, ea in started)
            if must:
                STATS["must_yield"] += 1
                if c not in got:
                    v = {"kind": "a search started after the announcing search ended (and finished within 24 h of the announce) "
                                 "did not yield the announcer's contact", "search": stag, "searcher": b, "announcer": a,
                         "expected": c, "yielded": sorted(got), "t_search": ts, "announces": anns, "latency": meta["lat"]}
                    if slow and listed:
                        STATS["known_hits"] += 1
                        if not KNOWN_EXAMPLE:
                            KNOWN_EXAMPLE.append(v)
                    else:
                        out.append(v)
            if must_not:
                STATS["must_not_yield"] += 1
                if c in got:
                    out.append({"kind": "a search started more than 24 h after the last announce ended still yields the contact",
                                "search": stag, "searcher": b, "announcer": a, "contact": c, "t_search": ts, "announces": anns})
        extra = got - allowed
        if extra:
            out.append({"kind": "a search yielded an address nobody announced for this info-hash", "search": stag,
                        "extra": sorted(extra), "allowed": sorted(allowed)})
    if slow:
        STATS["slow_runs"] += 1
    return out


def gen(rng, consts, i, tier="quick"):
    if i % 8 == 7:
        return nodegen.gen_network(rng, consts, band="slow", horizon="hour")
    if i % 8 in (2, 5):
        return nodegen.gen_network(rng, consts, band="ok", horizon="day", n=rng.range(2, 5) if tier == "quick" else None)
    return nodegen.gen_network(rng, consts, band="ok", horizon="hour")


def post(res, scs, logs, traces):
    res.evaluations = STATS["must_yield"] + STATS["must_not_yield"]
    res.coverage["end_to_end_obligations"] = dict(STATS)
    res.coverage["network_sizes"] = sorted(set(m["n"] for _, m in scs))
    res.coverage["latency_bands_ns"] = sorted(set(tuple(m["lat"]) for _, m in scs))
    if STATS["known_hits"]:
        v = KNOWN_EXAMPLE[0]
        res.known.append("with one-way datagram latency in [0.75 s, 1 s) (round trip >= LOOKUP_TIMEOUT = 1.5 s) every answer arrives "
                         "after its query was forgotten: announcing searches store nothing and searches end empty "
                         "(%d of %d obligations in %d slow-band runs; e.g. search %s from %s expected %s, latency %s ns)"
                         % (STATS["known_hits"], STATS["must_yield"], STATS["slow_runs"], v["search"], v["searcher"],
                            v["expected"], list(v["latency"])))
    res.coverage["known_finding_F_C01_reproduced"] = bool(STATS["known_hits"])


def run(res):
    tier = res.tier
    return nodeprop.run(
        res, PROP, NOTE, lambda rng, consts, i: gen(rng, consts, i, tier), checker, 16, 160,
        "2..9 real serving nodes (each configured with all others as contacts; IPv4 or IPv6; announce port set or implied; random "
        "ids, some info-hashes next to a node id) on the loss-free simulated network with random per-datagram latency in one of the "
        "bands 1 ms .. 749 ms (plus the known-finding band [750 ms, 1 s)); 1-3 announcers, a re-announce hours later, and "
        "searches from random nodes at offsets 0 s .. 24 h + 2 h after the announcing search ended, including 24 h - 70 s and "
        "24 h + 30 s; checker: must-yield / must-not-yield / nothing-unannounced on the streams returned by MainlineDht::search. "
        "evaluations = (announcer, search) obligations decided; distinct = distinct scenarios.",
        ["the multi-node composition is decided on simulated runs, not by a theorem (partial)",
         "loss-free network and the latency bands above; no churn"],
        validate=False, post=post, sim_timeout=1500)


def replay(path):
    return nodeprop.replay(PROP, path, None)
