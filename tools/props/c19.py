"""C19 -- transaction ids: 8 bytes, never reused while live or shared between activities."""
import json
import os
import re

import vlib
from vlib import Broken

PROP = "C19"
LEVEL_NOTE = ("theorems over the Gallina model of AIDGenerator/MIDGenerator (any number of draws, any permutation "
              "oracle) and of the 8-byte composition; tied to src/transaction.rs by constants read from the source "
              "and by replaying the real generators' observed block orders through the model")


def consts():
    txt = open(os.path.join(vlib.COQ, "gen", "Consts.v")).read()
    def g(name):
        m = re.search(r"Definition %s : Z := (\d+)%%Z" % name, txt)
        if not m:
            raise Broken("constant %s missing" % name)
        return int(m.group(1))
    return (g("txn_message_id_prealloc_len"), g("txn_max_message_id"),
            g("txn_action_id_prealloc_len"), g("txn_max_action_id"))


def coq_nlist(xs):
    return "[" + "; ".join(str(x) for x in xs) + "]%N"


def run(res):
    proved = vlib.prove(res, PROP, extra_targets=["run/Run_Txn.vo"])
    if not proved:
        vlib.ensure_model(["run/Run_Txn.vo"])
    ok, out = vlib.build_harness()
    if not ok:
        raise Broken("harness build failed: " + out[-1500:])
    B, M, AB, AM = consts()
    if B <= 0 or M < B or M > (1 << 24) or M // B > 20000:
        # the harness tracks ids in a 2^24 table; other sizes are reported through the broken proof only
        res.broken_ties.append(("id generator parameters outside the harness's range", {"B": B, "M": M}))
        return res.finish("proof", LEVEL_NOTE)
    code, out, err = vlib.harness(["txn", str(B), str(M)], timeout=900)
    if code != 0:
        raise Broken("harness txn failed: " + err[-500:])
    sums, dumps, adumps, tids, flags = [], {}, {}, [], {}
    frombytes = []
    for line in out.split("\n"):
        p = line.split()
        if not p:
            continue
        if p[0] == "sum":
            sums.append((int(p[1]), int(p[2]), int(p[3])))
        elif p[0] == "dump":
            dumps[int(p[1])] = p[2]
        elif p[0] == "adump":
            adumps[int(p[1])] = p[2]
        elif p[0] == "tid":
            tids.append((int(p[1]), int(p[2]), p[3]))
        elif p[0] == "frombytes":
            frombytes.append(p[1])
        else:
            flags[p[0]] = p[1:]
    nblocks = int(flags["blocks"][0])
    if len(sums) != nblocks:
        raise Broken("harness txn: block summaries missing")

    # ---- evaluate in Coq: model vs observed ----
    sum_pairs = "; ".join("(%d, %d)" % (k, s) for k, s, _ in sums)
    first = [dumps[k] for k in (0, 1, 2)]
    others = sorted(k for k in dumps if k > 2)
    afirst = [adumps[k] for k in sorted(adumps) if len(adumps[k]) == 10 * AB]
    text = (
        "From BT Require Import model.Prelude model.Txn run.Run_Txn.\n"
        "Set Printing Width 1000000. Set Printing Depth 1000000.\n"
        "Definition sums : list (N * N) := [%s]%%N.\n" % sum_pairs
        + "Eval vm_compute in (check_summary mid_B mid_M sums).\n"
        + "Definition first3 : list (list N) := map (hexnums 3) [%s]%%string.\n" % "; ".join(vlib.coq_string(h) for h in first)
        + "Eval vm_compute in (check_from_start mid_B mid_M (fun _ => mid_init mid_B) first3).\n"
        + "Definition later : list (N * list N) := [%s].\n" % "; ".join(
            "(%d%%N, hexnums 3 %s%%string)" % (k, vlib.coq_string(dumps[k])) for k in others)
        + "Eval vm_compute in (check_blocks mid_B mid_M later).\n"
        + "Definition afirst : list (list N) := map (hexnums 5) [%s]%%string.\n" % "; ".join(vlib.coq_string(h) for h in afirst)
        + "Eval vm_compute in (check_from_start aid_B aid_M (aid_init aid_B aid_M) afirst).\n"
        + "Eval vm_compute in (forallb (fun '(a, m, t) => tid_ok a m (hex t)) [%s]).\n" % "; ".join(
            "(%d%%N, %d%%N, %s%%string)" % (a, m, vlib.coq_string(t)) for a, m, t in tids)
    )
    path = os.path.join(vlib.CACHE, "cases", "c19_run.v")
    (codec, outc), = vlib.coq_eval_files([(path, text)])
    if codec != 0:
        raise Broken("coqc failed on c19 cases: " + outc[-1000:])
    blocks = vlib.parse_eval_blocks(outc)
    if len(blocks) != 5:
        raise Broken("unexpected coqc output: " + outc[:800])
    bad_sums = vlib.parse_N_list(blocks[0])
    mid_start_ok = blocks[1] == "(true, true)"
    bad_later = vlib.parse_N_list(blocks[2])
    aid_start_ok = blocks[3] == "(true, true)"
    tids_ok = blocks[4] == "true"

    n_draws = M + 3 * B
    res.evaluations = n_draws + 3 * AB + 5
    res.traces_validated = 2
    res.distinct = set(range(nblocks))  # distinct shuffled blocks exercised (each a different permutation)
    res.samples = [{"tid": t, "action_id": a, "message_id": m} for a, m, t in tids[:4]] + [
        {"block": 0, "first_ids_of_observed_order": [int(dumps[0][i:i + 6], 16) for i in range(0, 60, 6)]}]
    res.coverage.update({
        "rule": "one real MIDGenerator drawn %d times (through the 2^24 wrap, block size %d as compiled without cfg(test)); "
                "one real AIDGenerator drawn %d times. Every block's start is compared with the model's closed form in Coq; "
                "blocks 0-2, the three around the wrap and 3 action-id blocks are replayed through the model with the observed "
                "order as shuffle oracle; non-trivial/distinct = distinct blocks (each is a fresh random permutation)." % (n_draws, B, 3 * AB + 5),
        "input_distribution": {"message_id_draws": n_draws, "blocks": nblocks, "action_id_draws": 3 * AB + 5},
        "impl_first_M_distinct": flags["first_m_distinct"][0] == "1",
        "impl_min_repeat_gap": int(flags["min_gap"][0]),
        "impl_all_tids_8_bytes": flags["len_ok"][0] == "1",
        "impl_action_prefix_constant_within_activity": flags["aid_constant"][0] == "1",
    })
    res.assumptions = ["A-RNG: rand's shuffle returns a permutation (oracle hypothesis perm_oracle; checked on every observed block)",
                       "fewer than 2^40 activities are started by one node (aid wrap)"]

    # property checker on the implementation's observations
    if flags["len_ok"][0] != "1":
        res.violations.append({"property": PROP, "kind": "tid-not-8-bytes", "how": "harness txn %d %d" % (B, M)})
    want = "".join("1" if n == 8 else "0" for n in range(17))
    wrong = [fb for fb in frombytes if fb != want]
    res.coverage["from_bytes_length_sweeps"] = len(frombytes)
    if wrong or not frombytes:
        res.violations.append({"property": PROP, "kind": "TransactionID::from_bytes accepts a byte string that is not exactly 8 bytes long "
                               "(c19_from_bytes_exactly_8)", "accepted_by_length_0_to_16": wrong[:1],
                               "how": "harness txn %d %d: lines `frombytes`, one flag per length 0..16 of a real id truncated / zero-extended" % (B, M)})
    if flags["first_m_distinct"][0] != "1":
        i, j = flags.get("first_repeat", ["?", "?"])
        res.violations.append({"property": PROP, "kind": "message-id-repeated-before-2^24",
                               "draw_i": i, "draw_j": j, "how": "one MIDGenerator, harness txn %d %d" % (B, M)})
    if flags["aid_constant"][0] != "1":
        res.violations.append({"property": PROP, "kind": "message ids leak into the action prefix",
                               "how": "harness txn %d %d: the 5-byte prefix changed within one activity" % (B, M)})
    gap = int(flags["min_gap"][0])
    if gap != -1 and gap < (1 << 24) - 2048 + 1:
        res.violations.append({"property": PROP, "kind": "message-id-repeat-gap", "gap": gap,
                               "how": "harness txn %d %d" % (B, M)})
    bad_blocks = [k for k, s, okb in sums if not okb]
    if bad_blocks and not res.violations:
        res.violations.append({"property": PROP, "kind": "block-not-contiguous", "blocks": bad_blocks[:5],
                               "how": "harness txn %d %d" % (B, M)})
    if not tids_ok:
        res.broken_ties.append(("correspondence compose/action_id/from_bytes", tids[:3]))
    if bad_sums or not mid_start_ok or bad_later:
        res.broken_ties.append(("correspondence MIDGenerator: model blocks differ from observed",
                                {"summary_blocks": bad_sums[:5], "first3": mid_start_ok, "later": bad_later}))
    if not aid_start_ok:
        res.broken_ties.append(("correspondence AIDGenerator: model draws differ from observed", {}))
    if not res.violations:
        node_part(res)
    return res.finish("proof", LEVEL_NOTE)


def node_part(res):
    """Ids as the running node uses them: over whole simulated runs (bootstrap with silent / answering contacts and repeated
    re-bootstrap attempts, refresh rounds, searches) every query the node sends carries an 8-byte transaction id that it has not
    sent to the same address before in that run (one id towards several distinct addresses is the deliberate sharing of a
    bootstrap round)."""
    import nodegen
    import nodeprop
    vlib.ensure_model(nodeprop.RUN_TARGETS)

    def gen(rng, consts, i):
        if i % 2 == 0:
            return nodegen.gen_bootstrap(rng, consts)
        return nodegen.gen_lookup(rng, consts, hostile=False, faults=(i % 4 == 1), early=False)

    def checker(sc, meta, log, tr):
        naddr = sc.node["addr"].script()
        seen = {}
        out = []
        for (t, kind, body) in log:
            if kind != "WIRE":
                continue
            head, _, rendered = body.partition(" | ")
            hp = head.split()
            if hp[0] != naddr or " q=" not in " " + rendered:
                continue
            tid = rendered.split(" ")[0][2:]
            if len(tid) != 16:
                out.append({"kind": "a query was sent with a transaction id that is not 8 bytes long", "time": t, "tid": tid})
            elif (tid, hp[1]) in seen:
                # (the first bootstrap round deliberately uses one id towards several DISTINCT addresses)
                out.append({"kind": "the node sent the same transaction id to the same address twice within one run", "tid": tid,
                            "first_used": seen[(tid, hp[1])], "again_at": t, "to": hp[1], "query": rendered[:120]})
            else:
                seen[(tid, hp[1])] = t
            if out:
                break
        return out

    nodeprop.explore(
        res, PROP, gen, checker, 12, 200,
        "bootstrap scenarios (contacts answering / silent / erroring, outages, repeated re-bootstrap attempts with back-off) and "
        "search scenarios; checker: every query datagram the real node sent in a run has an 8-byte transaction id never sent "
        "to the same address before in that run",
        [], part="node_part", socket_replay=True)


def replay(path):
    with open(path) as f:
        data = json.load(f)
    print("replay: re-running the generators on the current tree (%s)" % data.get("kind"))
    res = vlib.Result(PROP, "quick", 0)
    return run(res)
