"""C02 -- a search reaches the 8 closest nodes, announces to them, yields every peer found."""
import lookupcheck
import nodegen
import nodeprop
from nodeprop import parse_rendered, render_map, split_list

PROP = "C02"
NOTE = ("proved: binary-search correctness, sortedness of the candidate list through every search step, announces go to the "
        "closest token holders, exact stream contents per accepted answer; convergence to the network's 8 closest nodes under "
        "the property's premises is decided on simulated runs of the real node (partial)")


def checker(sc, meta, log, tr):
    views, viol = lookupcheck.analyse(log, tr)
    out = list(viol)
    world = meta["world"]
    own = "%040x" % meta["own"]
    stored = {}
    for (t, kind, body) in log:
        if kind == "RESP_STORED":
            name, ih, a = body.split()
            stored.setdefault(ih, set()).add((name, a))
        elif kind == "RESP_BADTOKEN":
            out.append({"kind": "a responder refused the announce token", "what": body})
        elif kind == "PANIC":
            out.append({"kind": "panic", "what": body[:200]})
    names = {a.script(): "r%d" % i for i, (_, a) in enumerate(world)}
    for s in meta["searches"]:
        vs = [v for v in views.values() if v.target == "%040x" % s["ih"] and v.start is not None and v.start >= s["t"]]
        if not vs:
            out.append({"kind": "search left no trace", "tag": s["tag"]})
            continue
    for aid, v in views.items():
        if v.finished is None:
            out.append({"kind": "search did not finish", "search": aid})
            continue
        target = int(v.target, 16)
        closest = sorted(world, key=lambda w: w[0] ^ target)[:8]
        want = set(a.script() for _, a in closest)
        got = set(dst for (_, dst, _) in v.announces)
        if v.announce:
            if got != want:
                out.append({"kind": "announce_peer not sent to exactly the 8 closest nodes", "search": aid,
                            "missing": sorted(want - got), "extra": sorted(got - want)})
            for (_, dst, d) in v.announces:
                if d["id"] != own:
                    out.append({"kind": "announce_peer does not carry the node's id", "search": aid})
                exp_port = "-" if meta["aport"] is None else str(meta["aport"])
                if d.get("port", "-") != exp_port:
                    out.append({"kind": "announce_peer carries the wrong port / implied_port", "search": aid,
                                "port": d.get("port"), "expected": exp_port})
            # and every one of them accepted it (token issued by that very node)
            ip = meta["naddr"]
            contact = ("6:" if ip.v6 else "4:") + (("%032x" if ip.v6 else "%08x") % ip.ip) + ":" + str(
                meta["aport"] if meta["aport"] is not None else ip.port)
            acc = stored.get(v.target, set())
            for a in want:
                if (names[a], contact) not in acc:
                    out.append({"kind": "a closest node did not store the announced contact", "search": aid, "node": a,
                                "expected_contact": contact})
        elif got:
            out.append({"kind": "announce_peer sent although not requested", "search": aid})
        # the stream delivers every peer contained in every answer, once per occurrence
        vals = []
        for (_, src, tid, r) in v.accepted:
            vals += split_list(r.get("values"))
        ys = [a for (_, a) in v.yields]
        if sorted(vals) != sorted(ys):
            out.append({"kind": "stream items differ from the values of the accepted answers", "search": aid,
                        "answers": len(vals), "stream": len(ys)})
        # every answer to a get_peers query of this search was accepted (they all arrive within 1 s)
        if len(v.accepted) != len(v.queries):
            out.append({"kind": "an answer that arrived within one second was not used", "search": aid,
                        "queries": len(v.queries), "accepted": len(v.accepted)})
    return out


def gen(rng, consts, i):
    sizes = [[1, 2], [7, 8, 9], [12, 30], [60, 100], [300]][i % 5] if i % 5 != 4 else [100, 300]
    return nodegen.gen_lookup(rng, consts, hostile=False, faults=False, early=False, sizes=sizes)


def gen_thorough(rng, consts, i):
    sizes = [[1, 2, 3], [7, 8, 9], [12, 30], [60, 100], [300, 600, 1000]][i % 5]
    return nodegen.gen_lookup(rng, consts, hostile=False, faults=False, early=False, sizes=sizes)


def run(res):
    g = gen if res.tier == "quick" else gen_thorough
    return nodeprop.run(
        res, PROP, NOTE, g, checker, 15, 400,
        "one real node (read-only or serving, explicit or implied announce port) searches in a world of 1..300 (thorough: ..1000) "
        "honest scripted responders whose answers list the truly closest 8 nodes; ids uniform / clustered around the target / "
        "around the searcher; 1-8 bootstrap contacts; round trips up to 1 s; peers preloaded on random responders; 1-3 searches. "
        "The checker compares the announce targets with the true 8 closest of the world, checks that each of them stored the "
        "node's contact (so the token was the one it issued), and compares the stream with the values of all answers as "
        "multisets. Every event is replayed through the Coq lookup model. distinct = distinct scenarios.",
        ["convergence is checked per run, not proved for all networks"], max_validate_events=1500)


def replay(path):
    return nodeprop.replay(PROP, path, None)
