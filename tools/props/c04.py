"""C04 -- every search ends, neither early nor never."""
import lookupcheck
import nodegen
import nodeprop
from nodeprop import parse_rendered, render_map
from simlib import S, MS

PROP = "C04"
NOTE = ("timer-discipline and immediate-completion theorems over the Gallina model; the quantitative termination bounds are "
        "decided on simulated runs of the real node (virtual clock) by the checker and by trace validation of the model "
        "(partial: the bounds themselves are not a theorem yet)")
T = 1500 * MS


def checker(sc, meta, log, tr):
    views, _ = lookupcheck.analyse(log, tr)
    out = []
    ended = {}
    called = {}
    for (t, kind, body) in log:
        if kind == "STREAM_END":
            ended[body.strip()] = t
        elif kind == "SEARCH_CALL":
            called[body.split()[0]] = t
    end_t = [t for (t, k, b) in log if k == "END"][0]
    # every stream closes
    for tag, t0 in called.items():
        if tag not in ended and end_t - t0 > 90 * S:       # (scenarios run 100 s beyond the last search call)
            out.append({"kind": "search stream never closed", "tag": tag, "called": t0})
    sendfails = any(k == "SENDFAIL" for (_, k, _) in log)
    rm = render_map(log)
    for aid, v in views.items():
        if v.finished is None:
            # still open at the end of the run: overdue if its own bound (1.5 s per distinct node + 3 s) has passed
            if v.queries:
                t1 = v.queries[0][0]
                d = len(v.named | set(q[2] for q in v.queries))
                if end_t > t1 + T * (1 + d) + T + 1 * S:
                    out.append({"kind": "search still open after 1.5 s per distinct node + 3 s", "search": aid,
                                "first_query": t1, "distinct_nodes": d, "run_ended": end_t})
            continue
        if not v.queries:
            continue
        t1 = v.queries[0][0]
        d = len(v.named | set(q[2] for q in v.queries))
        bound = t1 + T * (1 + d) + T
        if v.finished > bound:
            out.append({"kind": "search ended later than 1.5 s per distinct node + 3 s", "search": aid,
                        "first_query": t1, "finished": v.finished, "distinct_nodes": d})
        if not v.accepted and not sendfails:
            if v.finished != t1 + 2 * T:
                out.append({"kind": "silent network: search did not end exactly 3 s after its first query", "search": aid,
                            "first_query": t1, "finished": v.finished})
        if not sendfails:
            answered = set(a[2] for a in v.accepted)
            for (tq, tid, dst) in v.queries:
                if tid not in answered and v.finished - tq < T:
                    # allowed only for end-game queries whose end-game (1.5 s) has elapsed: those are sent at
                    # finished - 1.5 s exactly
                    if v.finished - tq != T:
                        out.append({"kind": "search closed while a query was younger than 1.5 s and unanswered",
                                    "search": aid, "query_sent": tq, "finished": v.finished})
                        break
    # an answer arriving within 1.5 s of its query is never missed
    for e in tr.events:
        if e["kind"] != "EV_MSG":
            continue
        r = parse_rendered(rm.get(e["hex"]))
        if r is None or r["y"] != "r" or len(r["t"]) != 16:
            continue
        aid = int(r["t"][:10], 16)
        v = views.get(aid)
        if v is None:
            continue
        qs = [q for q in v.queries if q[1] == r["t"] and q[2] == e["src"].script()]
        if not qs:
            continue
        tq = qs[0][0]
        first = not any(a[2] == r["t"] and a[0] < e["t"] for a in v.accepted)
        if e["t"] - tq < T and first and not sendfails:
            if not any(a[2] == r["t"] and a[0] == e["t"] for a in v.accepted):
                out.append({"kind": "an answer arriving within 1.5 s of its query was missed", "search": aid,
                            "query_sent": tq, "answer_at": e["t"]})
    return out


def gen(rng, consts, i):
    return nodegen.gen_lookup(rng, consts, hostile=False, faults=(i % 4 != 3), early=(i % 6 == 0), as_routers=(i % 5 == 4))


def run(res):
    return nodeprop.run(
        res, PROP, NOTE, gen, checker, 16, 400,
        "family B scenarios with faults: silent, error-answering, garbage and no-nodes responders, loss, duplication, windows in "
        "which the node's sends fail, round-trip latencies up to 1.4 s, clustered worlds that keep naming closer nodes; the checker "
        "measures on the virtual clock when each stream closes: always; 3 s after the first query under silence; within "
        "1.5 s x (1 + distinct nodes) + 1.5 s; never while a query is younger than 1.5 s and unanswered; answers within 1.5 s are "
        "accepted. Every event is replayed through the Coq model. distinct = distinct scenarios.",
        ["the termination bounds are checked per run, not proved for all runs"])


def replay(path):
    return nodeprop.replay(PROP, path, None)
