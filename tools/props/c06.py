"""C06 -- announce tokens: bound to the requester IP, valid >= 10 min, dead by 30 min (token store part)."""
import json
import re

import comp
import vlib
from vlib import Rng, Broken

PROP = "C06"
LEVEL_NOTE = ("theorems over the Gallina model of TokenStore for every history (arbitrary pre/mid/post operation lists, "
              "non-decreasing times); tied to src/token.rs by the refresh interval read from the source and by differential "
              "runs of the real TokenStore under the virtual clock (accept/refuse sequence and token-equality pattern)")
S = 10**9
MIN10 = 600 * S


def ip_script(ip):
    return ("%032x" if ip[0] else "%08x") % ip[1]


def gen_case(rng, consts):
    interval = consts["token_refresh_interval"]
    bases = sorted(set([MIN10, interval]))
    ips = [(False, int.from_bytes(rng.bytes(4), "big")) for _ in range(rng.range(1, 3))]
    if rng.chance(2, 3):
        ips.append((True, int.from_bytes(rng.bytes(16), "big")))
    t0 = rng.choice([0, 1, 123456789, 7 * 86400 * S])
    now = t0
    ops = []
    issues = []  # (index, time, ip)
    for _ in range(rng.range(15, 60)):
        r = rng.below(14)
        if r < 3:
            dt = rng.choice([0, 1, S - 1, S, 59 * S])
        elif r < 8 and issues:
            idx, ti, ip = rng.choice(issues[-5:])
            b = rng.choice(bases)
            target = ti + rng.choice([1, 2, 3]) * b + rng.choice([-S - 1, -S, -1, 0, 1, S - 1, S, S + 1])
            dt = max(0, target - now)
        elif r < 10:
            b = rng.choice(bases)
            dt = rng.choice([1, 2, 3]) * b + rng.choice([-S, -1, 0, 1, S])
        elif r < 11:
            dt = rng.below(6 * 3600 * S)      # long idle gap
        else:
            dt = rng.below(2 * MIN10)
        now += max(0, dt)
        r = rng.below(10)
        if r < 4 or not issues:
            ip = rng.choice(ips)
            ops.append(("CO", now, ip))
            issues.append((len(ops) - 1, now, ip))
        elif r < 8:
            idx, ti, ip = rng.choice(issues[-6:])
            ops.append(("CI", now, ip, idx))
        elif r < 9:
            idx, ti, ip = rng.choice(issues[-6:])
            other = rng.choice(ips)
            ops.append(("CI", now, other, idx))
        else:
            idx, ti, ip = rng.choice(issues)
            ops.append(("CR", now, ip, rng.choice(["flip", "short", "long", "zero", "swap"]), idx))
    return t0, ops


def script_of(case):
    t0, ops = case
    lines = []
    for o in ops:
        if o[0] == "CO":
            lines.append("CO %d %s" % (o[1], ip_script(o[2])))
        elif o[0] == "CI":
            lines.append("CI %d %s %d" % (o[1], ip_script(o[2]), o[3]))
        else:
            lines.append("CR %d %s %s %d" % (o[1], ip_script(o[2]), o[3], o[4]))
    return lines


def coq_ops(case):
    t0, ops = case
    t = []
    for o in ops:
        b = "true" if o[2][0] else "false"
        if o[0] == "CO":
            t.append("CO %d %s %d" % (o[1], b, o[2][1]))
        elif o[0] == "CI":
            t.append("CI %d %s %d %d" % (o[1], b, o[2][1], o[3]))
        else:
            t.append("%s %d %s %d" % ("CL" if o[3] in ("short", "long") else "CR", o[1], b, o[2][1]))
    return "[" + "; ".join(t) + "]"


def run_impl(cases):
    text = []
    for c in cases:
        text.append("RESET %d" % c[0])
        text.extend(script_of(c))
    code, out, err = vlib.harness(["token"], "\n".join(text) + "\n", timeout=600)
    if code != 0:
        raise Broken("harness token failed: " + err[-600:])
    res, cur = [], None
    for line in out.split("\n"):
        if line == "RESET":
            cur = []
            res.append(cur)
        elif line.strip():
            cur.append(line)
    if len(res) != len(cases):
        raise Broken("harness token: case count mismatch")
    return res


def check_cases(cases):
    """Per case: (pattern_equal, acc_diff_indices, impl_violation, model_violation, obs_lines)."""
    obs = run_impl(cases)
    terms = []
    for i, (c, ob) in enumerate(zip(cases, obs)):
        if len(ob) != len(c[1]):
            raise Broken("token harness: op/output count mismatch")
        flags = []
        for l in ob:
            p = l.split()
            flags.append("2" if p[0] == "CO" else p[1])
        terms.append(
            "Definition ops_%d := %s.\nDefinition obs_%d : list N := [%s]%%N.\n"
            "Eval vm_compute in (model_obs %d ops_%d).\n"
            "Eval vm_compute in (c06_ok ops_%d obs_%d).\n"
            "Eval vm_compute in (c06_ok_model %d ops_%d).\n" % (i, coq_ops(c), i, "; ".join(flags), c[0], i, i, i, c[0], i))
    header = "From BT Require Import model.Prelude model.Token run.Run_Token.\nOpen Scope Z_scope.\n"
    blocks = comp.shard_eval("c06_run", header, terms, 3)
    out = []
    for c, ob, b in zip(cases, obs, blocks):
        model = re.findall(r"ObsTok (true|false) (\d+) (\d+)|ObsAcc (true|false)", b[0])
        if len(model) != len(ob):
            raise Broken("cannot parse model observations: " + b[0][:300])
        acc_diff = []
        impl_class, model_class = {}, {}
        pattern_ok = True
        pairs = []
        for j, (m, l) in enumerate(zip(model, ob)):
            p = l.split()
            if p[0] == "CO":
                if m[3] != "":
                    acc_diff.append(j)
                    continue
                pairs.append((p[1], (m[0], m[1], m[2])))
            else:
                if m[3] == "" or (m[3] == "true") != (p[1] == "1"):
                    acc_diff.append(j)
        # token equality pattern: real tokens equal iff model tokens equal
        for a in range(len(pairs)):
            for bb in range(a + 1, len(pairs)):
                if (pairs[a][0] == pairs[bb][0]) != (pairs[a][1] == pairs[bb][1]):
                    pattern_ok = False
        out.append((pattern_ok, acc_diff, comp.parse_opt_N(b[1]), comp.parse_opt_N(b[2]), ob))
    return out


def shrink(case, fails):
    t0, ops = case
    cur = list(ops)

    def valid(o):
        # references must still point at checkouts: rebuild indices
        return True

    # removing ops shifts references; re-index conservatively by only removing ops that nobody references
    changed = True
    while changed:
        changed = False
        for i in range(len(cur) - 1, -1, -1):
            referenced = any((o[0] == "CI" and o[3] == i) or (o[0] == "CR" and o[4] == i) for o in cur)
            if referenced:
                continue
            cand = []
            for o in cur[:i] + cur[i + 1:]:
                if o[0] == "CI" and o[3] > i:
                    o = (o[0], o[1], o[2], o[3] - 1)
                elif o[0] == "CR" and o[4] > i:
                    o = (o[0], o[1], o[2], o[3], o[4] - 1)
                cand.append(o)
            if cand and fails((t0, cand)):
                cur = cand
                changed = True
    return (t0, cur)


def run(res):
    rng = Rng(res.seed).fork("c06")
    proved = vlib.prove(res, PROP, extra_targets=["run/Run_Token.vo"])
    if not proved:
        vlib.ensure_model(["run/Run_Token.vo"])
    ok, out = vlib.build_harness()
    if not ok:
        raise Broken("harness build failed: " + out[-1500:])
    consts = comp.read_consts()
    n = 150 if res.tier == "quick" else 4000
    cases = [gen_case(rng.fork("k%d" % i), consts) for i in range(n)]
    results = check_cases(cases)
    nops = sum(len(c[1]) for c in cases)
    res.evaluations = nops
    res.traces_validated = len(cases)
    dist = {"checkout": 0, "checkin_accepted": 0, "checkin_refused": 0}
    for c, (pok, ad, iv, mv, ob) in zip(cases, results):
        for l in ob:
            if l.startswith("CO"):
                dist["checkout"] += 1
            elif l.endswith("1"):
                dist["checkin_accepted"] += 1
            else:
                dist["checkin_refused"] += 1
        res.distinct.add(json.dumps(script_of(c)))
    res.samples = [{"t0": cases[0][0], "script": script_of(cases[0])[:10], "observed": results[0][4][:10]}]
    res.coverage.update({
        "rule": "scripts of checkout / checkin (token referenced by the index of the checkout that produced it; other-IP, "
                "bit-flipped, 19/21-byte, zero and reversed presentations) on 2-4 IPs of both families; gaps biased to 10/20/30 min "
                "+-1 ns/+-1 s after earlier issues and to multiples of the rotation interval, plus idle gaps of hours. "
                "distinct = distinct scripts; evaluations = operations.",
        "input_distribution": dict(dist, cases=len(cases), operations=nops),
    })
    res.assumptions = ["A-SHA: SHA-1 injective on ip||secret buffers (tokens are symbolic terms in the model)",
                       "A-RNG: secrets drawn by rand::random::<u32>() are fresh",
                       "A-TIME: one clock reading per operation, monotone clock"]
    for idx, (c, (pok, ad, iv, mv, ob)) in enumerate(zip(cases, results)):
        if mv is not None:
            raise Broken("c06_ok rejects the model's own trace (case %d op %d)" % (idx, mv))
        if iv is not None:
            small = shrink(c, lambda cc: check_cases([cc])[0][2] is not None)
            r = check_cases([small])[0]
            res.violations.append({"property": PROP, "kind": "token-accept/refuse-violates-C06", "t0": small[0],
                                   "script": script_of(small), "observed": r[4], "first_bad_op": r[2],
                                   "how": "harness token < (RESET t0 + script); c06_ok evaluated in Coq on the observed flags"})
            break
    if not res.violations:
        bad = [(idx, r) for idx, r in enumerate(results) if r[1] or not r[0]]
        if bad:
            idx, r = bad[0]
            res.broken_ties.append(("correspondence TokenStore: model and implementation differ on %d case(s)" % len(bad),
                                    {"t0": cases[idx][0], "script": script_of(cases[idx]), "observed": r[4],
                                     "differing_ops": r[1][:10], "token_equality_pattern_equal": r[0]}))
    if not res.violations:
        handler_part(res)
    return res.finish("proof", LEVEL_NOTE)


def handler_part(res):
    """The handler clauses (which IP the token is bound to, storing gated on the token check, what get_peers returns): the
    real serving node receives get_peers / announce_peer traffic with right, foreign, altered, wrong-length and stale tokens;
    servercheck decides the discipline from the datagrams alone; every handled event is replayed through the Coq model."""
    import nodegen
    import nodeprop
    import servercheck
    vlib.ensure_model(nodeprop.RUN_TARGETS)

    def gen(rng, consts, i):
        return nodegen.gen_server(rng, consts, many_peers=(i % 3 == 2), long_times=(i % 2 == 0), mapped_sources=(i % 4 == 3))

    def checker(sc, meta, log, tr):
        return servercheck.check(sc, log, tr)

    nodeprop.explore(
        res, PROP, gen, checker, 12, 200,
        "server scenarios (see C05): one real node, 2-6 sources, get_peers and announce_peer with the right token / another "
        "source's / bit-flipped / 19- and 21-byte / zero / empty tokens, explicit or implied ports, time steps up to 30 min, up to "
        "210 announcers per info-hash; checker: tokens accepted only if issued to that IP <= 30 min ago and never refused within "
        "10 min; get_peers values = live acknowledged same-family contacts (unless cut at the datagram cap)",
        [], part="handler_part")


def replay(path):
    data = json.load(open(path))
    if "script" not in data:
        print("replay file names broken obligations only; re-run ./check C06")
        return 0
    vlib.ensure_model(["run/Run_Token.vo"])
    ok, out = vlib.build_harness()
    if not ok:
        raise Broken("harness build failed")
    ops = []
    for l in data["script"]:
        p = l.split()
        ip = (len(p[2]) == 32, int(p[2], 16))
        if p[0] == "CO":
            ops.append(("CO", int(p[1]), ip))
        elif p[0] == "CI":
            ops.append(("CI", int(p[1]), ip, int(p[3])))
        else:
            ops.append(("CR", int(p[1]), ip, p[3], int(p[4])))
    r = check_cases([(data["t0"], ops)])[0]
    print("replay: observed", r[4])
    if r[2] is not None:
        print("VIOLATION property=%s replay=%s" % (PROP, path))
        return 1
    print("no violation on the current tree")
    return 0
