"""C08 -- routing table keeps its shape; a node is only traded for a strictly better one."""
import tableprop

PROP = "C08"
NOTE = ("invariant theorem over every operation history + bucket transition laws, over the Gallina model of "
        "node.rs/bucket.rs/table.rs; tied to the code by constants from the source and slot-by-slot differential runs of "
        "the real RoutingTable under the virtual clock; c08_ok (shape + transition clauses) evaluated on the real dumps")


def run(res):
    return tableprop.run(
        res, PROP, NOTE, ["mixed", "deep", "mixed", "deep"], 16, 400,
        "operation scripts on the real RoutingTable (offers as responder/hearsay, whole responses with named nodes, queries "
        "sent/received, routers, time steps biased to the 15 min and 30 s boundaries), with a full slot dump before and after "
        "every offer; ids placed at every prefix depth incl. last-bit-only differences and the local id; 'deep' cases force "
        "chains of bucket splits; repeated offers, same id/other address, same address/other id, router addresses. "
        "distinct = distinct scripts; evaluations = operations.",
        ["A-TIME: one clock reading per operation",
         "offered addresses are not 127.0.0.1:0 (placeholder of empty slots)",
         "table-level transition clauses across a bucket split are validated by c08_ok on every run; proved at bucket level"])


def replay(path):
    return tableprop.replay(PROP, path)
