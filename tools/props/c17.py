"""C17 -- every datagram the node emits fits its peers' 1500-byte receive buffer."""
import nodegen
import nodeprop

PROP = "C17"
NOTE = ("theorem c17_reply_le_1500 over the handler model composed with the encoder model (exact length formula); tied to the "
        "code by constants from the source, trace validation, and the length of every datagram of every simulated run")


def checker(sc, meta, log, tr):
    out = []
    naddr = sc.node["addr"].script()
    worst = 0
    for (t, kind, body) in log:
        if kind == "WIRE" and body.startswith(naddr + " "):
            n = int(body.split()[2].split("=")[1])
            rendered = body.split(" | ")[-1]
            tid = rendered.split(" ")[0][2:] if rendered.startswith("t=") else ""
            if len(tid) > 64:
                # the reply echoes a transaction id longer than 32 bytes: outside the property's quantifier
                meta["replies_to_long_ids"] = meta.get("replies_to_long_ids", 0) + 1
                continue
            worst = max(worst, n)
            if n > 1500:
                out.append({"kind": "datagram longer than 1500 bytes", "time": t, "len": n, "what": body.split(" | ")[-1][:200]})
                break
    meta["worst_len"] = worst
    return out


def gen(rng, consts, i):
    if i % 3 == 2:
        return nodegen.gen_lookup(rng, consts, hostile=False, faults=False)
    return nodegen.gen_server(rng, consts, many_peers=True, long_times=False)


def post(res, scs, logs, traces):
    res.coverage["longest_datagram_sent"] = max((m.get("worst_len", 0) for _, m in scs), default=0)


def run(res):
    return nodeprop.run(
        res, PROP, NOTE, gen, checker, 15, 300,
        "family A scenarios that first store 60..210 peers of the node's family on one info-hash (get_peers + announce from as many "
        "sources, explicit and implied ports) and then issue queries with want in {-,n4,n6,both} and transaction ids of 0..32 "
        "bytes, plus family B search scenarios; the checker measures the length of EVERY datagram the node hands to its socket. "
        "distinct = distinct scenarios.",
        ["transaction ids of incoming queries are at most 32 bytes (the property's quantifier); a remote token longer than 1355 "
         "bytes would make the node's announce_peer exceed 1500 bytes (outside the quantifier)"], post=post)


def replay(path):
    return nodeprop.replay(PROP, path, None)
