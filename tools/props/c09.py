"""C09 -- nearest-node enumeration visits every live table node exactly once, nearest bucket first."""
import tableprop
import vlib

PROP = "C09"
NOTE = ("theorems c09_walk_perm (finite sweep over all 161 start indices) and c09_enumeration_perm (every table satisfying the "
        "C08 invariant, every target) over the Gallina model of ClosestNodes; tied to the code by differential runs of the real "
        "iterator (exact order) and c09_ok on the real dumps")


def run(res):
    return tableprop.run(
        res, PROP, NOTE, ["deep", "mixed", "deep"], 16, 400,
        "as C08, plus after random operations a dump followed by closest_nodes(target) for targets = local id, single-bit flips "
        "of it, ids of known nodes, random ids; the real iterator's exact output order is compared with the model and c09_ok "
        "checks: duplicate-free listing of exactly the live nodes, nodes sharing a longer prefix with the target first.",
        ["the take-8-per-family part of the reply is covered by the handler model (C05) and by handler_part below"],
        extra=handler_part)


def handler_part(res):
    """Reply node lists of the running node: tables of 9..40 live contacts; a find_node and a get_peers for the same key,
    handled back to back, must list the same nodes; lists hold at most 8 pairwise distinct contacts, never the node itself;
    every handled event is replayed through the Coq model (exact lists, exact order)."""
    import nodegen
    import nodeprop
    vlib.ensure_model(nodeprop.RUN_TARGETS)

    def gen(rng, consts, i):
        return nodegen.gen_bigtable_server(rng, consts)

    def checker(sc, meta, log, tr):
        fn, gp = {}, {}
        out = []
        own = "%040x" % meta["own"]
        for (t, kind, body) in log:
            if kind != "WIRE":
                continue
            head, _, rendered = body.partition(" | ")
            hp = head.split()
            if hp[0] != meta["naddr"] or hp[1] != meta["src"] or " r id=" not in " " + rendered:
                continue
            f = dict(x.split("=", 1) for x in rendered.split(" ")[2:] if "=" in x)
            tid = rendered.split(" ")[0][2:]
            lists = (f.get("nodes", ""), f.get("nodes6", ""))
            for l in lists:
                names = [x for x in l.split(",") if x]
                if len(names) > 8:
                    out.append({"kind": "more than 8 nodes in a reply list", "time": t, "reply": rendered[:200]})
                if len(set(names)) != len(names):
                    out.append({"kind": "a reply lists a contact twice", "time": t, "reply": rendered[:200]})
                if any(x.startswith(own + "@") for x in names):
                    out.append({"kind": "a reply lists the node itself", "time": t})
            if tid.startswith("f1"):
                fn[tid[2:]] = lists
            elif tid.startswith("f2"):
                gp[tid[2:]] = lists
        for j, l in fn.items():
            if j in gp and gp[j] != l:
                out.append({"kind": "find_node and get_peers for the same key, handled back to back, list different nodes",
                            "probe": j, "find_node": l, "get_peers": gp[j]})
        return out[:3]

    nodeprop.explore(
        res, PROP, gen, checker, 10, 150,
        "one real serving node bootstrapped into 9..40 scripted contacts (ids spread over the first 12 buckets and at random); "
        "8-20 probe pairs find_node(key)/get_peers(key) 1 ns apart for key = own id / a known id / a single-bit flip / random, "
        "all want variants; checker on the reply datagrams; every handled event replayed through the Coq model",
        [], part="handler_part")


def replay(path):
    return tableprop.replay(PROP, path)
