"""C09 -- nearest-node enumeration visits every live table node exactly once, nearest bucket first."""
import tableprop

PROP = "C09"
NOTE = ("theorems c09_walk_perm (finite sweep over all 161 start indices) and c09_enumeration_perm (every table satisfying the "
        "C08 invariant, every target) over the Gallina model of ClosestNodes; tied to the code by differential runs of the real "
        "iterator (exact order) and c09_ok on the real dumps")


def run(res):
    return tableprop.run(
        res, PROP, NOTE, ["deep", "mixed", "deep"], 16, 400,
        "as C08, plus after random operations a dump followed by closest_nodes(target) for targets = local id, single-bit flips "
        "of it, ids of known nodes, random ids; the real iterator's exact output order is compared with the model and c09_ok "
        "checks: duplicate-free listing of exactly the live nodes, nodes sharing a longer prefix with the target first.",
        ["the take-8-per-family part of the reply is covered by the handler model (C05)"])


def replay(path):
    return tableprop.replay(PROP, path)
