"""C07 -- peer store: exact, duplicate-free, 24-hour, capacity-bounded answers (storage part)."""
import json

import comp
import vlib
from vlib import Rng, Broken

PROP = "C07"
LEVEL_NOTE = ("refinement theorem c07_refines_spec over the Gallina model of AnnounceStorage for every history with "
              "non-decreasing times; tied to src/storage.rs by constants from the source and by differential runs "
              "of the real AnnounceStorage under the virtual clock")
DAY = 86400 * 10**9


def gen_case(rng, kind, consts):
    exp = consts["storage_expiration_time"]
    cap = consts["storage_max_items_stored"]
    bounds = sorted(set([DAY, exp]))
    ops = []  # ("A", t, ih, addr) | ("F", t, ih)
    now = rng.choice([0, 1, 5 * 10**9, 3 * DAY])
    add_times = []

    def step():
        nonlocal now
        r = rng.below(12)
        if r < 3:
            dt = rng.choice([0, 1, 10**9, 60 * 10**9])
        elif r < 5:
            dt = rng.below(3600 * 10**9)
        elif r < 9 and add_times:
            b = rng.choice(bounds)
            target = rng.choice(add_times[-6:]) + b + rng.choice([-1, 0, 1, -10**9, 10**9])
            dt = max(0, target - now)
        elif r < 10:
            dt = rng.choice(bounds) + rng.choice([-1, 0, 1])
        else:
            dt = rng.below(DAY // 2)
        now += dt

    if kind == "small":
        hashes = [comp.rand_id(rng) for _ in range(rng.range(1, 3))]
        addrs = [comp.rand_addr(rng) for _ in range(rng.range(1, 6))]
        # same ip, different port and same port different ip variants
        if len(addrs) > 1:
            addrs.append(comp.Addr(addrs[0].v6, addrs[0].ip, addrs[1].port))
        for _ in range(rng.range(20, 70)):
            step()
            if rng.chance(6, 10):
                ops.append(("A", now, rng.choice(hashes), rng.choice(addrs)))
                add_times.append(now)
            else:
                ops.append(("F", now, rng.choice(hashes)))
    else:  # capacity
        hashes = [comp.rand_id(rng) for _ in range(rng.range(1, 5))]
        n0 = cap + rng.choice([-2, -1, 0, 1, 2])
        pool = []
        seen = set()
        while len(pool) < n0 + 6:
            a = comp.rand_addr(rng)
            h = rng.choice(hashes)
            if (h, a.key()) not in seen:
                seen.add((h, a.key()))
                pool.append((h, a))
        spread = rng.choice([0, 1, 10**6, 10**9])
        half = rng.range(1, n0 - 1)
        for i, (h, a) in enumerate(pool[:n0]):
            now += spread if i != half else rng.choice([spread, 3600 * 10**9])
            ops.append(("A", now, h, a))
            add_times.append(now)
        for _ in range(rng.range(15, 40)):
            r = rng.below(10)
            if r < 2:
                step()
            else:
                now += rng.choice([0, 1, 10**9])
            r = rng.below(10)
            if r < 3:
                h, a = rng.choice(pool[n0:])      # new pair at/over capacity
                ops.append(("A", now, h, a))
            elif r < 6:
                h, a = rng.choice(pool[:n0])      # renewal
                ops.append(("A", now, h, a))
                add_times.append(now)
            elif r < 7:
                h, a = rng.choice(pool)
                ops.append(("A", now, h, a))
            else:
                ops.append(("F", now, rng.choice(hashes)))
    return ops


def script_of(ops):
    lines = []
    for o in ops:
        if o[0] == "A":
            lines.append("A %d %s %s" % (o[1], comp.id_hex(o[2]), o[3].script()))
        else:
            lines.append("F %d %s" % (o[1], comp.id_hex(o[2])))
    return lines


def coq_ops(ops):
    t = []
    for o in ops:
        if o[0] == "A":
            a = o[3]
            t.append("A %d %d %s %d %d" % (o[1], o[2], "true" if a.v6 else "false", a.ip, a.port))
        else:
            t.append("F %d %d" % (o[1], o[2]))
    return "[" + "; ".join(t) + "]"


def coq_obs(lines):
    t = []
    for l in lines:
        p = l.split()
        if p[0] == "A":
            t.append("OAdd %s" % ("true" if p[1] == "1" else "false"))
        else:
            addrs = [comp.Addr.parse(x) for x in p[1].split(",")] if len(p) > 1 else []
            t.append("OFind [" + "; ".join(a.coq() for a in addrs) + "]")
    return "[" + "; ".join(t) + "]"


def evaluate(cases, obs, tag):
    terms = []
    for i, (ops, ob) in enumerate(zip(cases, obs)):
        terms.append(
            "Definition ops_%d := %s.\nDefinition obs_%d := %s.\n"
            "Eval vm_compute in (diff ops_%d obs_%d).\nEval vm_compute in (c07_ok ops_%d obs_%d).\n"
            "Eval vm_compute in (c07_ok_model ops_%d).\n" % (i, coq_ops(ops), i, coq_obs(ob), i, i, i, i, i))
    header = "From BT Require Import model.Prelude model.Storage run.Run_Storage.\nOpen Scope Z_scope.\n"
    return comp.shard_eval("c07_" + tag, header, terms, 3)


def shrink(ops, fails):
    """Greedy delta-debugging on the op list; `fails(ops) -> bool`."""
    cur = list(ops)
    chunk = max(1, len(cur) // 2)
    while chunk >= 1:
        i = 0
        changed = False
        while i < len(cur):
            cand = cur[:i] + cur[i + chunk:]
            if cand and fails(cand):
                cur = cand
                changed = True
            else:
                i += chunk
        if not changed:
            chunk //= 2
    return cur


def check_cases(cases):
    """Returns list per case of (diff_indices, impl_violation_index|None, model_violation_index|None, obs)."""
    obs = comp.run_script("storage", [script_of(c) for c in cases])
    for c, o in zip(cases, obs):
        if len(c) != len(o):
            raise Broken("storage harness: %d ops, %d outputs" % (len(c), len(o)))
    blocks = evaluate(cases, obs, "run")
    out = []
    for b, o in zip(blocks, obs):
        out.append((vlib.parse_N_list(b[0]), comp.parse_opt_N(b[1]), comp.parse_opt_N(b[2]), o))
    return out


def run(res):
    rng = Rng(res.seed).fork("c07")
    proved = vlib.prove(res, PROP, extra_targets=["run/Run_Storage.vo"])
    if not proved:
        vlib.ensure_model(["run/Run_Storage.vo"])
    ok, out = vlib.build_harness()
    if not ok:
        raise Broken("harness build failed: " + out[-1500:])
    consts = comp.read_consts()
    n_small, n_cap = (60, 20) if res.tier == "quick" else (900, 100)
    cases = []
    corpus = load_corpus()
    cases += corpus
    for i in range(n_small):
        cases.append(gen_case(rng.fork("s%d" % i), "small", consts))
    for i in range(n_cap):
        cases.append(gen_case(rng.fork("c%d" % i), "cap", consts))
    results = check_cases(cases)
    nops = sum(len(c) for c in cases)
    res.evaluations = nops
    res.traces_validated = len(cases)
    kinds = {"A_ok": 0, "A_refused": 0, "F_empty": 0, "F_nonempty": 0}
    for c, (d, iv, mv, o) in zip(cases, results):
        for l in o:
            if l.startswith("A 1"):
                kinds["A_ok"] += 1
            elif l.startswith("A 0"):
                kinds["A_refused"] += 1
            elif l.strip() == "F":
                kinds["F_empty"] += 1
            else:
                kinds["F_nonempty"] += 1
        res.distinct.add(json.dumps(script_of(c))[:20000])
    res.samples = [{"script": script_of(cases[len(corpus)])[:12], "observed": results[len(corpus)][3][:12]}]
    res.coverage.update({
        "rule": "operation scripts (announce/lookup with time stamps) executed on the real AnnounceStorage under the virtual clock "
                "and on the model; 'small' cases: 1-3 hashes, few addresses of both families, time steps biased to the 24 h "
                "boundary (+-1 ns, +-1 s) of earlier announces; 'cap' cases: 498..502 distinct pairs then new pairs, renewals, "
                "lookups and boundary jumps. distinct = distinct scripts; evaluations = operations.",
        "input_distribution": dict(kinds, cases=len(cases), corpus_cases=len(corpus), operations=nops),
    })
    res.assumptions = ["A-TIME: one clock reading per operation, clock monotone (times_from)",
                       "HashMap per-hash vectors are represented by one insertion-ordered list (only get-by-key is used)"]
    for idx, (c, (d, iv, mv, o)) in enumerate(zip(cases, results)):
        if mv is not None:
            raise Broken("c07_ok rejects the model's own trace (case %d op %d)" % (idx, mv))
        if iv is not None:
            def fails(ops):
                r = check_cases([ops])[0]
                return r[1] is not None
            small = shrink(c, fails)
            r = check_cases([small])[0]
            res.violations.append({"property": PROP, "kind": "store-reply-violates-spec", "script": script_of(small),
                                   "observed": r[3], "first_bad_op": r[1],
                                   "how": "harness storage < script; c07_ok evaluated in Coq on the observed replies"})
            break
    if not res.violations:
        bad = [(idx, d) for idx, (c, (d, iv, mv, o)) in enumerate(zip(cases, results)) if d]
        if bad:
            idx, d = bad[0]
            res.broken_ties.append(("correspondence AnnounceStorage: model and implementation differ on %d case(s)" % len(bad),
                                    {"script": script_of(cases[idx]), "observed": results[idx][3], "differing_ops": d[:10]}))
    if not res.violations:
        handler_part(res)
    return res.finish("proof", LEVEL_NOTE)


def load_corpus():
    import os
    path = os.path.join(vlib.VERIF, "corpus", "c07.json")
    if not os.path.exists(path):
        return []
    out = []
    for case in json.load(open(path)):
        ops = []
        for l in case:
            p = l.split()
            if p[0] == "A":
                ops.append(("A", int(p[1]), int(p[2], 16), comp.Addr.parse(p[3])))
            else:
                ops.append(("F", int(p[1]), int(p[2], 16)))
        out.append(ops)
    return out


def handler_part(res):
    """The handler clauses (which IP the token is bound to, storing gated on the token check, what get_peers returns): the
    real serving node receives get_peers / announce_peer traffic with right, foreign, altered, wrong-length and stale tokens;
    servercheck decides the discipline from the datagrams alone; every handled event is replayed through the Coq model."""
    import nodegen
    import nodeprop
    import servercheck
    vlib.ensure_model(nodeprop.RUN_TARGETS)

    def gen(rng, consts, i):
        return nodegen.gen_server(rng, consts, many_peers=(i % 3 == 1), long_times=(i % 2 == 1), mapped_sources=(i % 4 == 3))

    def checker(sc, meta, log, tr):
        return servercheck.check(sc, log, tr)

    nodeprop.explore(
        res, PROP, gen, checker, 12, 200,
        "server scenarios (see C05): one real node, 2-6 sources, get_peers and announce_peer with the right token / another "
        "source's / bit-flipped / 19- and 21-byte / zero / empty tokens, explicit or implied ports, time steps up to 30 min, up to "
        "210 announcers per info-hash; checker: tokens accepted only if issued to that IP <= 30 min ago and never refused within "
        "10 min; get_peers values = live acknowledged same-family contacts (unless cut at the datagram cap)",
        [], part="handler_part")


def replay(path):
    data = json.load(open(path))
    if "script" not in data:
        print("replay file names broken obligations only; re-run ./check C07")
        return 0
    vlib.ensure_model(["run/Run_Storage.vo"])
    ok, out = vlib.build_harness()
    if not ok:
        raise Broken("harness build failed")
    ops = []
    for l in data["script"]:
        p = l.split()
        ops.append(("A", int(p[1]), int(p[2], 16), comp.Addr.parse(p[3])) if p[0] == "A" else ("F", int(p[1]), int(p[2], 16)))
    d, iv, mv, o = check_cases([ops])[0]
    print("replay: observed", o)
    if iv is not None:
        print("VIOLATION property=%s replay=%s" % (PROP, path))
        return 1
    print("no violation on the current tree (model/impl differing ops: %s)" % d)
    return 0
