"""C14 -- no datagram can crash, abort or exhaust the node.

This check covers the DECODER clause: theorems c14_alloc_bounded / c14_depth_bounded over the
instrumented decoder model, and supervised decoding of the malformed stream by the real crate
(child process, 2 MiB thread stack, address-space rlimit, panic hook, allocation meter).
The running-node clause is node_part()."""
import json
import os

import krpc
import vlib
from vlib import Rng, Broken

PROP = "C14"
LEVEL_NOTE = ("decoder clause: theorems over the instrumented Gallina model of Message::decode (allocation log, nesting "
              "depth) for every byte string; the real crate decodes the malformed stream in a supervised child process. "
              "partial by nature: that the real allocator and stack survive what is requested is observed, not proved")
RUN_TARGETS = ["run/Run_Krpc.vo", "run/Run_Handler.vo"]
DEPTH_BOUND = 34          # c14_depth_bounded: MAX_DEPTH + 2

SIZES = {
    #            malformed  nesting  trunc-bases  garbage  valid
    "quick":    (2500,      144,     8,           300,     200),
    "thorough": (80000,     3000,    150,         8000,    4000),
}


def node_part(res, rng, inputs):
    """The running-node clause: a real serving node on the simulated network receives the malformed stream (every
    datagram of at most 1500 bytes, in random order, from several sources, interleaved with well-formed queries); it must not
    panic, must keep answering pings and API calls, and its handler events must replay through the Coq model."""
    import comp
    import nodegen
    import simlib
    from simlib import S, MS
    usable = [b for b in inputs if 0 < len(b) <= 1500]
    n_runs = 4 if res.tier == "quick" else 16
    per_run = 400 if res.tier == "quick" else 1500
    scs = []
    for k in range(n_runs):
        r = rng.fork("node%d" % k)
        sc = simlib.Scenario()
        v6 = r.chance(1, 4)
        own = comp.rand_id(r)
        naddr = nodegen.addr_in_family(r, v6, 1)
        sc.add("seed %d" % r.below(1 << 30))
        if k % 2 == 1:
            sc.add("latency %d %d" % (2 * MS, 2 * MS))
            sc.add("dup 500")        # datagrams (also the answers to the node's own bootstrap queries) arrive twice, back to back
        else:
            sc.add("latency %d %d" % (1 * MS, 5 * MS))
        ra = nodegen.addr_in_family(r, v6, 100)
        rid = comp.rand_id(r)
        sc.add_resp("r0", ra, rid, "normal")
        sc.add("world %040x@%s" % (rid, ra.script()))
        sc.add_node("n", naddr, own, ro=False, aport=None, nodes=[ra])
        srcs = [nodegen.addr_in_family(r, v6, 1000 + i) for i in range(4)]
        probe = nodegen.addr_in_family(r, v6, 5000)
        t = 3 * S
        probes = []
        # corpus and the longest inputs first, then a random sample
        # well-formed queries with very long transaction ids (the id is echoed; its length enters the reply-size arithmetic)
        def long_tid_query(n, q):
            body = (b"d2:id20:" + r.bytes(20) + (b"9:info_hash20:" + r.bytes(20) if q == b"get_peers" else
                                                   b"6:target20:" + r.bytes(20) if q == b"find_node" else b"") + b"e")
            return (b"d1:a" + body + b"1:q" + str(len(q)).encode() + b":" + q + b"1:t" + str(n).encode() + b":" + r.bytes(n)
                    + b"1:y1:qe")
        longs = [long_tid_query(n, q) for n in (33, 700, 799, 800, 801, 900, 1300) for q in (b"get_peers", b"find_node", b"ping")]
        chosen = usable[:60] + longs + [usable[r.below(len(usable))] for _ in range(per_run)]
        for j, b in enumerate(chosen):
            t += r.range(1, 20) * MS
            sc.add("at %d inject %s %s %s" % (t, srcs[r.below(len(srcs))].script(), naddr.script(), b.hex()))
            if j % 25 == 24 or j == len(chosen) - 1:
                t += 30 * MS
                tid = "70%06x" % len(probes)
                sc.add("at %d injectmsg %s %s t=%s q=ping id=%040x" % (t, probe.script(), naddr.script(), tid, own ^ 1))
                probes.append(tid)
        sc.add("at %d state n" % (t + 1 * S))
        sc.add("end %d" % (t + 3 * S))
        scs.append((sc, {"probes": probes, "probe": probe.script(), "naddr": naddr.script(), "n_injected": len(chosen)}))
    logs = []
    for sc, meta in scs:
        try:
            logs.append(simlib.run_sim(sc.text(), timeout=600))
        except Broken as e:
            res.violations.append({"property": PROP, "kind": "the process running the node died while receiving malformed datagrams",
                                   "error": str(e)[-400:], "scenario": sc.lines,
                                   "how": "harness sim < scenario (one inject line per datagram)"})
            return
    answered_total = 0
    for (sc, meta), log in zip(scs, logs):
        answered = set()
        running = None
        panics = []
        for (t, kind, body) in log:
            if kind == "PANIC":
                panics.append(body[:300])
            elif kind == "WIRE":
                head, _, rendered = body.partition(" | ")
                hp = head.split()
                if hp[0] == meta["naddr"] and hp[1] == meta["probe"] and rendered.startswith("t=70") and " r " in rendered:
                    answered.add(rendered.split(" ")[0][2:])
            elif kind == "API_STATE":
                running = "running=1" in body
        answered_total += len(answered)
        missing = [p for p in meta["probes"] if p not in answered]
        if panics or missing or not running:
            res.violations.append({"property": PROP, "kind": "node stopped serving after malformed datagrams",
                                   "panics": panics[:3], "unanswered_pings": missing[:5], "api_state_running": running,
                                   "scenario": sc.lines, "how": "harness sim < scenario (one inject line per datagram)"})
            return
    traces = [simlib.Trace(l, sc.node) for (sc, _), l in zip(scs, logs)]
    blocks = simlib.validate_traces("c14_node", traces)
    bad = [(t, vlib.parse_N_list(b[0])) for t, b in zip(traces, blocks) if vlib.parse_N_list(b[0])]
    res.coverage["running_node"] = {"runs": len(scs), "datagrams_injected": sum(m["n_injected"] for _, m in scs),
                                    "liveness_pings_answered": answered_total,
                                    "handler_events_replayed_in_model": sum(len(t.events) for t in traces),
                                    "traces_with_differences": len(bad)}
    res.traces_validated = len(traces)
    if bad:
        t, d = bad[0]
        e = t.events[d[0]]
        res.broken_ties.append(("correspondence handler model (malformed datagrams): outputs differ on %d trace(s)" % len(bad),
                                {"first_differing_event_index": d[0], "event_kind": e["kind"], "event_time": e["t"],
                                 "datagram": e.get("hex", "")[:400]}))


def load_corpus():
    path = os.path.join(vlib.VERIF, "corpus", "c14.json")
    if not os.path.exists(path):
        return []
    return [bytes.fromhex(h) for h in json.load(open(path))]


def gen_stream(rng, tier):
    n_mal, n_nest, n_trunc, n_garb, n_valid = SIZES[tier]
    out = [("corpus", b) for b in krpc.CORPUS + load_corpus()]
    # length prefixes of every magnitude, in every string position of a few messages
    for i in range(12 if tier == "quick" else 200):
        r = rng.fork("lp%d" % i)
        m = krpc.rand_msg(r.fork("m"))
        tree = krpc.tree_of(m)
        enc = krpc.benc(tree)
        spaths = [p for p in krpc.tree_paths(tree) if isinstance(krpc.get_path(tree, p), (bytes, bytearray))]
        p = r.choice(spaths)
        marked = krpc.benc(krpc.tree_replace(tree, p, lambda v: krpc.Raw(b"\x00MARK\x00")))
        v = krpc.get_path(tree, p)
        pos = marked.index(b"\x00MARK\x00")
        rest = len(enc) - pos - len(b"%d:" % len(v))
        for pre in krpc.len_prefixes(rest):
            out.append(("len-prefix-sweep", marked.replace(b"\x00MARK\x00", pre + b":" + bytes(v))[:1500]))
    # integers at the i64 / u16 / u8 limits in every integer position
    for i in range(6 if tier == "quick" else 60):
        r = rng.fork("it%d" % i)
        m = krpc.rand_msg(r.fork("m"), r.choice(["announce_peer", "e"]))
        tree = krpc.tree_of(m)
        ipaths = [p for p in krpc.tree_paths(tree) if isinstance(krpc.get_path(tree, p), int)]
        for p in ipaths:
            for txt in krpc.INT_TEXTS:
                out.append(("int-limits", krpc.benc(krpc.tree_replace(tree, p, lambda v: krpc.Raw(b"i" + txt + b"e")))))
    for i in range(n_mal):
        r = rng.fork("mal%d" % i)
        out.append(krpc.malformed_from(r, krpc.rand_msg(r.fork("base"))))
    out += krpc.nesting_cases(rng.fork("nest"), n_nest)
    for i in range(n_trunc):
        r = rng.fork("trunc%d" % i)
        kind = ["ping", "find_node", "get_peers", "announce_peer", "r", "e"][i % 6]
        m = krpc.rand_msg(r, kind)
        while not krpc.msg_wf(m) or len(krpc.benc(krpc.tree_of(m))) > 400:
            r = r.fork("n")
            m = krpc.rand_msg(r, kind)
        out += [("truncation", b) for b in krpc.truncations(krpc.benc(krpc.tree_of(m)))]
    for i in range(n_garb):
        out.append(("garbage", krpc.garbage(rng.fork("g%d" % i))))
    for i in range(n_valid):
        r = rng.fork("ok%d" % i)
        m = krpc.rand_msg(r)
        if krpc.msg_wf(m):
            out.append(("valid", krpc.benc(krpc.tree_of(m), sort=True)))
            out.append(("valid-variant", krpc.variant_of(r.fork("v"), m)))
    # the node's receive buffer holds 1500 bytes; longer inputs are cut as the socket would
    return [(c, b[:1500]) for c, b in out]


def check(inputs, tag):
    """-> (Dec list, checker failures on impl peaks, model-log > impl-meter, model alloc bad, model depth bad, summaries)"""
    decs = krpc.run_decode(inputs)
    terms = ["Ic %s %d" % (krpc.coq_bz(b), d.peak) for b, d in zip(inputs, decs)]
    peak_bad, idiff, abad, summ = krpc.eval_lists(
        "c14_" + tag, "Ic", "icase", terms,
        ["c14_peak_bad", "instr_diff", "(alloc_bad %d%%nat)" % DEPTH_BOUND, "instr_summary"])
    alloc_bad, depth_bad = [], []
    for off, blk in abad:
        m = blk.strip()
        assert m.startswith("(") and m.endswith(")")
        a, d = split_pair(m[1:-1])
        alloc_bad += [off + i for i in vlib.parse_N_list(a)]
        depth_bad += [off + i for i in vlib.parse_N_list(d)]
    sums = []
    for off, blk in summ:
        nums = [int(x) for x in blk.replace("(", " ").replace(")", " ").replace(",", " ").replace("%N", "").split()]
        sums.append(nums)
    return decs, krpc.flagged(peak_bad), krpc.flagged(idiff), alloc_bad, depth_bad, sums


def split_pair(s):
    depth = 0
    for i, ch in enumerate(s):
        if ch == "[":
            depth += 1
        elif ch == "]":
            depth -= 1
        elif ch == "," and depth == 0:
            return s[:i], s[i + 1:]
    raise Broken("cannot split pair: " + s[:100])


def run(res):
    rng = Rng(res.seed).fork("c14")
    proved = vlib.prove(res, PROP, extra_targets=RUN_TARGETS)
    if not proved:
        vlib.ensure_model(RUN_TARGETS)
    ok, out = vlib.build_harness()
    if not ok:
        raise Broken("harness build failed: " + out[-1500:])

    stream = gen_stream(rng, res.tier)
    inputs = [b for _, b in stream]
    decs, peak_bad, idiff, alloc_bad, depth_bad, sums = check(inputs, "run")

    res.evaluations = len(inputs)
    res.traces_validated = len(inputs)
    for b in inputs:
        res.distinct.add(b[:300])
    status = {}
    classes = {}
    for (cls, b), d in zip(stream, decs):
        status[d.status] = status.get(d.status, 0) + 1
        c = "nesting" if cls.startswith("nesting") else cls
        e = classes.setdefault(c, {"n": 0, "OK": 0, "ERR": 0, "other": 0})
        e["n"] += 1
        e[d.status if d.status in ("OK", "ERR") else "other"] += 1
    worst_ratio = max(((d.peak - 4096) / max(1, len(b)) for b, d in zip(inputs, decs)), default=0)
    res.coverage.update({
        "rule": "every input decoded by the real crate in a supervised child (re-exec of the harness, 2 MiB thread stack, "
                "RLIMIT_AS 1 GiB, panic hook + catch_unwind, allocation meter = largest single request) and by the instrumented "
                "model inside Coq.  Inputs: corpus (the pinned-tree and first-repair witnesses first), length-prefix sweep "
                "(10^0..10^25, 2^31, 2^32, 2^63, 2^64, 2^64+-1, 2^128, remaining+-1, leading zeros/signs) in random string "
                "positions, integer texts at the i64/u16/u8 limits in every integer position, structure-aware mutations, "
                "containers nested 1..1500 deep (closed and unclosed, at every place the library recurses), every truncation "
                "of some messages, garbage, valid messages and their re-ordered variants; all cut to the 1500-byte receive "
                "buffer.  evaluations = inputs.",
        "input_distribution": {"classes": classes, "status": status, "inputs": len(inputs),
                               "len_max": max(len(b) for b in inputs),
                               "impl_peak_alloc_max": max(d.peak for d in decs),
                               "impl_peak_minus_4096_per_input_byte_max": round(worst_ratio, 2),
                               "model_alloc_max": max((s[0] for s in sums), default=0),
                               "model_depth_max": max((s[1] for s in sums), default=0),
                               "model_inputs_with_allocation": sum(s[2] for s in sums),
                               "model_accepted": sum(s[3] for s in sums),
                               "depth_bound_checked": DEPTH_BOUND},
        "decoder_clause_only": True,
    })
    i0 = len(krpc.CORPUS)
    res.samples = [{"input": inputs[0].hex(), "impl": decs[0].status, "peak": decs[0].peak},
                   {"input": inputs[2].hex(), "impl": decs[2].status, "peak": decs[2].peak},
                   {"input": inputs[i0].hex()[:200], "class": stream[i0][0], "impl": decs[i0].status, "peak": decs[i0].peak}]
    res.assumptions = ["the model logs what the library requests (vec![0u8; len]) and how deep it recurses; that the real "
                       "allocator / a 2 MiB stack survive is observed on the stream, not proved",
                       "running-node clause: observed on simulated runs of the real node (no panic, pings and API answered after "
                       "every batch of malformed datagrams), handler events replayed through the model"]

    # ---- verdicts
    how = "echo <input_hex> | %s codec decode   (status column: OK|ERR|PANIC|ABORT|SIGNAL n; 2nd column: largest allocation request)" % vlib.HARNESS_BIN
    bad = [i for i, d in enumerate(decs) if d.status not in ("OK", "ERR")]
    if bad:
        i = bad[0]
        small = shrink_crash(inputs[i])
        d = krpc.run_decode([small])[0]
        res.violations.append({"property": PROP, "kind": "decoder-crash", "input_hex": small.hex(), "status": d.status,
                               "class": stream[i][0], "crashing_inputs_in_run": len(bad), "how": how})
    if peak_bad and not res.violations:
        i = max(peak_bad, key=lambda j: decs[j].peak)
        res.violations.append({"property": PROP, "kind": "allocation-out-of-proportion", "input_hex": inputs[i].hex(),
                               "input_len": len(inputs[i]), "largest_request": decs[i].peak, "how": how})
    if alloc_bad or depth_bad:
        # cannot happen while c14_alloc_bounded / c14_depth_bounded are proved
        i = (alloc_bad or depth_bad)[0]
        res.broken_obligations.append(("the model's own log exceeds the bound of the C14 theorems", {"input_hex": inputs[i].hex(),
                                       "model": krpc.show_model([inputs[i]])[0]}))
    if idiff and not res.violations:
        i = idiff[0]
        res.broken_ties.append(("correspondence (instrumentation): the model logs an allocation larger than anything the "
                                "implementation's meter saw on %d input(s)" % len(idiff),
                                {"input_hex": inputs[i].hex(), "impl_peak": decs[i].peak, "model": krpc.show_model([inputs[i]])[0]}))
    if not res.violations:
        node_part(res, rng.fork("nodepart"), inputs)
    return res.finish("proof", LEVEL_NOTE)


def shrink_crash(data):
    def fails_batch(cands):
        return [d.status not in ("OK", "ERR") for d in krpc.run_decode(cands, batch=50)]
    try:
        return krpc.ddmin(data, fails_batch)
    except Broken:
        return data


def replay(path):
    data = json.load(open(path))
    if "input_hex" not in data:
        print("replay file names broken obligations / correspondence only; re-run ./check C14")
        return 0
    vlib.ensure_model(RUN_TARGETS)
    ok, out = vlib.build_harness()
    if not ok:
        raise Broken("harness build failed")
    b = bytes.fromhex(data["input_hex"])
    decs, peak_bad, idiff, alloc_bad, depth_bad, sums = check([b], "replay")
    d = decs[0]
    print("replay: implementation: status=%s largest_request=%d %s" % (d.status, d.peak, d.canon))
    print("replay: model: %s" % krpc.show_model([b])[0])
    if d.status not in ("OK", "ERR") or peak_bad:
        print("VIOLATION property=%s replay=%s" % (PROP, path))
        return 1
    print("no violation on the current tree")
    return 0
