"""C10 -- contacts are classified good / questionable / bad per BEP5 timing."""
import comp
import tablegen
import tableprop
import vlib

PROP = "C10"
NOTE = ("theorems over per-contact event histories over the Gallina model of node.rs; tied to the code by differential runs "
        "of the real RoutingTable (statuses in dumps and contacts) and c10_ok on the real dumps")
KNOWN_ID = "F-C10-hearsay-after-bad"


def known_finding(res):
    """F-C10: a contact that went bad (two unanswered queries) is re-admitted as questionable by a mere
    hearsay mention. Demonstrate on the real table; report as KNOWN-FINDING if listed, VIOLATION otherwise."""
    a = comp.Addr(False, 0x0A000001, 6881)
    c = tablegen.Case(0)
    idv = 1 << 159
    c.ops = [("OFFER", 0, False, idv, a), ("LREQ", 1000, idv, a), ("LREQ", 2000, idv, a), ("CONTACTS", 3000),
             ("OFFER", 4000, False, idv, a), ("CONTACTS", 4000)]
    obs = tablegen.run_cases([c])[0]
    gone = obs[3].strip() == "K ;"
    back = obs[5].strip() == "K ;" + a.script()
    known = vlib.load_known()
    listed = any(f.get("id") == KNOWN_ID for f in known.get("findings", []))
    res.coverage["known_finding_F_C10_reproduced"] = bool(gone and back)
    if gone and back:
        if listed:
            res.known.append("hearsay re-mention re-admits a contact that went bad before it answered (%s): script %s -> %s"
                             % (KNOWN_ID, c.script()[1:], obs))
        else:
            res.violations.append({"property": PROP, "kind": KNOWN_ID, "script": c.script(), "observed": obs})


def run(res):
    return tableprop.run(
        res, PROP, NOTE, ["mixed", "status", "deep", "status"], 16, 400,
        "as C08 with more queries sent/received and time steps around 15 min, plus per-contact histories (1-3 contacts, 30-90 events each: answers, hearsay, queries sent/received, gaps around 15 min); c10_ok recomputes from the event history alone: "
        "reported good only with an answer or a received query (while known) in the last 15 min; an answer makes the contact good "
        "at once; two queries sent while not good without answer or re-mention: not reported.",
        ["A-TIME", "known finding F-C10 (hearsay re-mention after bad) is excluded from c10_ok's two-unanswered clause and "
                   "reported separately"],
        extra=known_finding)


def replay(path):
    return tableprop.replay(PROP, path)
