"""C03 -- searches never fabricate peers, tokens or announce targets on hostile networks."""
import lookupcheck
import nodegen
import nodeprop

PROP = "C03"
NOTE = ("safety theorems over the Gallina lookup/handler model for arbitrary event lists; tied to src/action/lookup.rs and "
        "src/handler.rs by replaying the real handler's logged events through the model and by auditing every stream item "
        "and every announce_peer of the real node against what it actually received")


def checker(sc, meta, log, tr):
    views, viol = lookupcheck.analyse(log, tr)
    return viol


def gen(rng, consts, i):
    return nodegen.gen_lookup(rng, consts, hostile=True, faults=(i % 2 == 0), early=(i % 5 == 0))


def run(res):
    return nodeprop.run(
        res, PROP, NOTE, gen, checker, 16, 400,
        "family B scenarios: one real node searches (1-3 possibly concurrent searches, announce on/off, explicit/implied port) in a "
        "world of 1..60 scripted responders (uniform / clustered ids; normal, silent, error-answering, garbage, no-nodes "
        "personalities; tokens of 1..33 bytes) under latency up to 1.4 s, loss, duplication and send failures, while forged traffic "
        "is injected: duplicates, replays of old responses, the right transaction id from another source, ids with a flipped "
        "bit in the message or action part, 7-byte ids, fabricated responses with random ids carrying peers and tokens. "
        "distinct = distinct scenarios; evaluations = handler events replayed through the model.",
        ["A-RNG: transaction ids of distinct live activities differ (C19)"])


def replay(path):
    return nodeprop.replay(PROP, path, None)
