"""C16 -- a search requested before bootstrap finishes is carried out, not dropped."""
import nodegen
import nodeprop

PROP = "C16"
NOTE = ("theorems over the Gallina handler model (queueing and release of early searches); tied to the code by trace "
        "validation and by comparing, on the real node, the stream of a search issued before bootstrap completion with the "
        "stream of the same search issued afterwards (not empty when that one is not; started only after the conclusion)")


def checker(sc, meta, log, tr):
    """An early search must be carried out after the first bootstrap attempt has concluded: it ends, it is started (its first
    query goes out) no earlier than that conclusion, and it does not come back empty when the same search issued 30 s later finds
    peers.  (Equality of the two peer sets is NOT required: the routing table keeps changing after bootstrap and the order of
    arrival of answers steers the search, so two correct searches may reach different holders -- that is C02's subject.)"""
    streams = {}
    ended = set()
    called = {}
    started = []          # LOOKUP_START times in order
    concluded = None
    for (t, kind, body) in log:
        if kind == "SEARCH_CALL":
            called[body.split()[0]] = t
        elif kind == "STREAM":
            tag, a = body.split()
            streams.setdefault(tag, []).append(a)
        elif kind == "STREAM_END":
            ended.add(body.strip())
        elif kind == "LOOKUP_START":
            started.append(t)
        elif kind == "BOOT_STATE" and concluded is None and ("-> Bootstrapped" in body or "-> IdleBeforeRebootstrap" in body):
            concluded = t
    out = []
    if "late" not in called:
        return []          # (a shrunk scenario without the reference search decides nothing)
    late = set(streams.get("late", []))
    for tag in meta.get("early_tags", []):
        if tag not in called:
            continue
        if tag not in ended:
            out.append({"kind": "early search never ended", "tag": tag})
        elif late and not streams.get(tag) and not meta.get("first_attempt_fails"):
            out.append({"kind": "a search issued before bootstrap completion came back empty although the same search issued "
                                "30 s later finds peers", "tag": tag, "called_at": called[tag], "bootstrap_concluded_at": concluded,
                        "late": sorted(late)})
    if concluded is not None and any(t < concluded for t in started):
        out.append({"kind": "a search was started before the first bootstrap attempt had concluded", "lookup_starts": started[:4],
                    "bootstrap_concluded_at": concluded})
    if "late" not in ended:
        out.append({"kind": "late search never ended"})
    return out


def gen(rng, consts, i):
    return nodegen.gen_early(rng, consts)


def run(res):
    return nodeprop.run(
        res, PROP, NOTE, gen, checker, 16, 300,
        "one real node bootstrapping against 2..20 scripted responders (peers preloaded on some); the same non-announcing search "
        "is issued at t = 0, a few ms later, between initial contact and completion, and 30 s after completion; the checker "
        "requires every early search to end, to be started no earlier than the first bootstrap conclusion, and not to come back "
        "empty when the late twin finds peers; every event is replayed through the Coq model (queue, release order). distinct = "
        "distinct scenarios.",
        [])


def replay(path):
    return nodeprop.replay(PROP, path, None)
