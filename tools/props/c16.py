"""C16 -- a search requested before bootstrap finishes is carried out, not dropped."""
import nodegen
import nodeprop

PROP = "C16"
NOTE = ("theorems over the Gallina handler model (queueing and release of early searches); tied to the code by trace "
        "validation and by comparing, on the real node, the stream of a search issued before bootstrap completion with the "
        "stream of the same search issued afterwards")


def checker(sc, meta, log, tr):
    streams = {}
    ended = set()
    for (t, kind, body) in log:
        if kind == "STREAM":
            tag, a = body.split()
            streams.setdefault(tag, []).append(a)
        elif kind == "STREAM_END":
            ended.add(body.strip())
    out = []
    late = set(streams.get("late", []))
    for tag in meta.get("early_tags", []):
        if tag not in ended:
            out.append({"kind": "early search never ended", "tag": tag})
        elif set(streams.get(tag, [])) != late:
            out.append({"kind": "a search issued before bootstrap completion yielded other peers than the same search issued after it",
                        "tag": tag, "early": sorted(set(streams.get(tag, []))), "late": sorted(late)})
    if "late" not in ended:
        out.append({"kind": "late search never ended"})
    return out


def gen(rng, consts, i):
    return nodegen.gen_early(rng, consts)


def run(res):
    return nodeprop.run(
        res, PROP, NOTE, gen, checker, 16, 300,
        "one real node bootstrapping against 2..20 scripted responders (peers preloaded on some); the same non-announcing search "
        "is issued at t = 0, a few ms later, between initial contact and completion, and 30 s after completion; the checker "
        "compares the peer sets yielded; every event is replayed through the Coq model (queue, release order). distinct = "
        "distinct scenarios.",
        [])


def replay(path):
    return nodeprop.replay(PROP, path, None)
