"""C18 -- table refresh keeps one steady cadence however often the node re-bootstraps."""
import re

import nodegen
import nodeprop
from simlib import S

PROP = "C18"
NOTE = ("invariant theorem c18_one_chain over every run of the Gallina handler model; tied to the code by trace validation "
        "and by the refresh-round counter / pending-timer hook of long simulated runs with thousands of re-bootstraps")
SIX = 6 * S


def checker(sc, meta, log, tr):
    rounds = [t for (t, k, b) in log if k == "REFRESH_ROUND"]
    completions = [t for (t, k, b) in log if k == "BOOT_STATE" and b.endswith("-> Bootstrapped")]
    out = []
    for a, b in zip(rounds, rounds[1:]):
        if b - a < SIX and not any(a < c <= b for c in completions):
            out.append({"kind": "two refresh rounds less than 6 s apart without a bootstrap completion in between",
                        "first": a, "second": b})
            break
    # pending scheduled checks: the refresh contributes at most one entry
    live_lookup_timers = 0
    for (t, k, b) in log:
        if k == "EV_TIMER" and "TableRefresh" in b:
            m = re.search(r"pending=(\d+)", b)
            # after the refresh entry fired nothing but lookup timers may remain
            if m and int(m.group(1)) > 0 and not any(kk == "LOOKUP_START" for (_, kk, _) in log):
                out.append({"kind": "a second refresh timer was pending when one fired", "time": t, "pending": int(m.group(1))})
                break
    return out


def gen(rng, consts, i):
    return nodegen.gen_refresh_longrun(rng, consts, minutes=3 if i % 2 == 0 else 6)


def gen_long(rng, consts, i):
    return nodegen.gen_refresh_longrun(rng, consts, minutes=rng.choice([60, 180, 360]))


def post(res, scs, logs, traces):
    res.coverage["refresh_rounds_observed"] = sum(1 for l in logs for (_, k, _) in l if k == "REFRESH_ROUND")
    res.coverage["bootstrap_completions_observed"] = sum(1 for l in logs for (_, k, b) in l if k == "BOOT_STATE" and b.endswith("-> Bootstrapped"))


def run(res):
    if res.tier == "thorough":
        # hours of virtual time and thousands of re-bootstraps: checker only (the model is validated on the short runs)
        return nodeprop.run(res, PROP, NOTE, gen_long, checker, 0, 24,
                            "thorough: 24 runs of 1-6 virtual hours each in the few-contacts regime (re-bootstrap every ~5 s, "
                            "outages); checker on the round counter and pending-timer hook.", [], validate=False, post=post)
    return nodeprop.run(
        res, PROP, NOTE, gen, checker, 12, 0,
        "one real node with 0..8 answering contacts (so it re-bootstraps every ~5 s when fewer than 10 are good), outages that "
        "make it lose and regain the bootstrapped state, 3-6 virtual minutes; the checker uses the refresh-round log lines and "
        "the pending-timer count; every handler event is replayed through the Coq model. distinct = distinct scenarios.",
        [], post=post)


def replay(path):
    return nodeprop.replay(PROP, path, None)
