"""C13 -- KRPC wire codec conforms to BEP5/BEP32 and round-trips every message."""
import json
import os

import comp
import krpc
import vlib
from vlib import Rng, Broken

PROP = "C13"
LEVEL_NOTE = ("theorems over the Gallina model of Message::encode / Message::decode (torrust-serde-bencode + serde derive "
              "semantics + src/bencode.rs precheck) for every well-formed message; tied to the source by constants and by "
              "differential runs of the public Message::encode/decode on structured random messages, their key-permuted / "
              "unknown-key-extended re-encodings, the must-reject classes and a malformed stream")
RUN_TARGETS = ["run/Run_Krpc.vo"]

SIZES = {
    #            valid  variants/msg  rejects  malformed  nesting  trunc-bases  garbage
    "quick":    (400,   2,            200,     1200,      72,      6,           120),
    "thorough": (12000, 2,            6000,    60000,     1500,    120,         4000),
}


# --------------------------------------------------------------------------
def gen_streams(rng, tier):
    n_valid, n_var, n_rej, n_mal, n_nest, n_trunc, n_garb = SIZES[tier]
    msgs = []
    for i in range(n_valid):
        r = rng.fork("m%d" % i)
        msgs.append(krpc.rand_msg(r, wrong_family=(i % 25 == 7)))
    # forced coverage of the corners of the field space
    kinds = ["ping", "find_node", "get_peers", "announce_peer", "r", "e"]
    for i, k in enumerate(kinds * 3):
        m = krpc.rand_msg(rng.fork("corner%d" % i), k)
        if i < 6:
            m["t"] = b""
        elif i < 12:
            m["t"] = rng.fork("ct%d" % i).bytes(32)
        if k == "announce_peer" and i < 6:
            m["token"] = b""
            m["port"] = None
        if k == "r" and i >= 12:
            rr = rng.fork("cr%d" % i)
            m["nodes"] = [(krpc.rand_id(rr), krpc.rand_addr(rr, False)) for _ in range(50)]
            m["nodes6"] = [(krpc.rand_id(rr), krpc.rand_addr(rr, True)) for _ in range(50)]
            m["values"] = [krpc.rand_addr(rr) for _ in range(60)]
            m["token"] = b""
        msgs.append(m)
    wf_msgs = [m for m in msgs if krpc.msg_wf(m)]
    variants = []
    for i, m in enumerate(wf_msgs):
        for j in range(n_var):
            variants.append((m, krpc.variant_of(rng.fork("v%d.%d" % (i, j)), m)))
    rejects = krpc.reject_cases(rng.fork("rej"), n_rej)
    mal = [("corpus", b) for b in krpc.CORPUS + load_corpus()]
    for i in range(n_mal):
        r = rng.fork("mal%d" % i)
        mal.append(krpc.malformed_from(r, krpc.rand_msg(r.fork("base"))))
    mal += krpc.nesting_cases(rng.fork("nest"), n_nest)
    for i in range(n_trunc):
        r = rng.fork("trunc%d" % i)
        kind = ["ping", "find_node", "get_peers", "announce_peer", "r", "e"][i % 6]
        m = krpc.rand_msg(r, kind)
        while not krpc.msg_wf(m) or len(krpc.benc(krpc.tree_of(m))) > 400:
            m = krpc.rand_msg(r.fork("again"), kind)
            r = r.fork("n")
        mal += [("truncation", b) for b in krpc.truncations(krpc.benc(krpc.tree_of(m)))]
    for i in range(n_garb):
        mal.append(("garbage", krpc.garbage(rng.fork("g%d" % i))))
    return msgs, variants, rejects, mal


def load_corpus():
    path = os.path.join(vlib.VERIF, "corpus", "c13.json")
    if not os.path.exists(path):
        return []
    return [bytes.fromhex(h) for h in json.load(open(path))]


# --------------------------------------------------------------------------
def check_encode(msgs, tag):
    """-> (impl encodings, indices where the model's encoder differs, indices where the property checker fails)"""
    enc = krpc.run_encode(msgs)
    terms = ["Ec %s %s" % (krpc.coq_msg(m), krpc.coq_opt_bz(None if e is None else bytes.fromhex(e)))
             for m, e in zip(msgs, enc)]
    d, bad = krpc.eval_lists("c13_enc_" + tag, "Ec", "ecase", terms, ["encode_diff", "c13_encode_bad"])
    return enc, krpc.flagged(d), krpc.flagged(bad)


def check_decode(inputs, tag):
    """-> (Dec list, model/impl decode diffs, model/impl re-encode diffs, conformance checker failures)"""
    decs = krpc.run_decode(inputs)
    terms = [krpc.dcase_term(b, d) for b, d in zip(inputs, decs)]
    dd, ed, bad = krpc.eval_lists("c13_dec_" + tag, "Dc", "dcase", terms, ["dec_diff", "enc_diff", "c13_conform_bad"])
    return decs, krpc.flagged(dd), krpc.flagged(ed), krpc.flagged(bad)


def check_variants(variants, tag):
    inputs = [b for _, b in variants]
    decs = krpc.run_decode(inputs)
    terms = ["Vc %s %s %s" % (krpc.coq_bz(b), krpc.coq_msg(m), krpc.coq_opt_msg(d.msg)) for (m, b), d in zip(variants, decs)]
    bad, md = krpc.eval_lists("c13_var_" + tag, "Vc", "vcase", terms, ["c13_variant_bad", "variant_model_bad"])
    return decs, krpc.flagged(bad), krpc.flagged(md)


def check_rejects(rejects, tag):
    inputs = [b for _, b in rejects]
    decs = krpc.run_decode(inputs)
    terms = ["Rc %s %s" % (krpc.coq_bz(b), krpc.coq_bool(d.status == "OK")) for b, d in zip(inputs, decs)]
    bad, md = krpc.eval_lists("c13_rej_" + tag, "Rc", "rcase", terms, ["c13_reject_bad", "reject_model_bad"])
    return decs, krpc.flagged(bad), krpc.flagged(md)


def crashed(decs):
    return [i for i, d in enumerate(decs) if d.status not in ("OK", "ERR")]


# --------------------------------------------------------------------------
def run(res):
    rng = Rng(res.seed).fork("c13")
    proved = vlib.prove(res, PROP, extra_targets=RUN_TARGETS)
    if not proved:
        vlib.ensure_model(RUN_TARGETS)
    ok, out = vlib.build_harness()
    if not ok:
        raise Broken("harness build failed: " + out[-1500:])

    msgs, variants, rejects, mal = gen_streams(rng, res.tier)

    # (1) encoder: every representable message, incl. wrong-family node lists
    enc, enc_diffs, enc_bad = check_encode(msgs, "run")
    # (2) decoder on the implementation's own encodings
    enc_inputs = [bytes.fromhex(e) for e in enc if e is not None]
    enc_msgs = [m for m, e in zip(msgs, enc) if e is not None]
    decs1, dd1, ed1, bad1 = check_decode(enc_inputs, "own")
    rt_bad = [i for i, (m, d) in enumerate(zip(enc_msgs, decs1)) if d.msg is None or krpc.render(d.msg) != krpc.render(m)]
    # (3) permuted / unknown-key-extended re-encodings
    decs2, var_bad, var_md = check_variants(variants, "run")
    # (4) must-reject classes
    decs3, rej_bad, rej_md = check_rejects(rejects, "run")
    # (5) malformed stream
    mal_inputs = [b for _, b in mal]
    decs4, dd4, ed4, bad4 = check_decode(mal_inputs, "mal")

    n_cases = len(msgs) + len(enc_inputs) + len(variants) + len(rejects) + len(mal)
    res.evaluations = n_cases
    res.traces_validated = n_cases
    for m in msgs:
        res.distinct.add(krpc.render(m)[:300])
    for _, b in variants:
        res.distinct.add(b[:300])
    for _, b in mal:
        res.distinct.add(b[:300])

    # ---- input distribution
    dist = {"messages": {}, "malformed_classes": {}, "malformed_accepted_by_impl": 0, "reject_classes": {}}
    for m in msgs:
        dist["messages"][m["k"]] = dist["messages"].get(m["k"], 0) + 1
    for (cls, _), d in zip(mal, decs4):
        c = cls.split("-")[0] if cls.startswith("nesting") else cls
        e = dist["malformed_classes"].setdefault(c, {"n": 0, "accepted": 0})
        e["n"] += 1
        if d.status == "OK":
            e["accepted"] += 1
            dist["malformed_accepted_by_impl"] += 1
    for cls, _ in rejects:
        dist["reject_classes"][cls] = dist["reject_classes"].get(cls, 0) + 1
    rs = [m for m in msgs if m["k"] == "r"]
    dist["tid_len_hist"] = hist([len(m["t"]) for m in msgs], [0, 1, 2, 4, 8, 16, 32])
    dist["nodes_per_list_max"] = max([len(m["nodes"]) for m in rs] + [len(m["nodes6"]) for m in rs] + [0])
    dist["values_max"] = max([len(m["values"]) for m in rs] + [0])
    dist["values_mixed_family"] = sum(1 for m in rs if len(set(a.v6 for a in m["values"])) == 2)
    dist["empty_token"] = sum(1 for m in msgs if m.get("token") == b"")
    dist["implied_port"] = sum(1 for m in msgs if m["k"] == "announce_peer" and m["port"] is None)
    dist["wrong_family_node_lists"] = sum(1 for m in msgs if not krpc.msg_wf(m))
    dist["encoded_len_max"] = max(len(b) for b in enc_inputs) if enc_inputs else 0
    dist["variants"] = len(variants)
    dist["malformed"] = len(mal)
    res.coverage.update({
        "rule": "encode: random messages over the whole field space (tid 0..32 bytes, any ids, 0..50 nodes per list, 0..60 "
                "peers of mixed family, tokens 0..300 bytes, ports 0..65535/implied, codes 0..255, UTF-8 texts) through "
                "Message::encode, compared with the model encoder and with canon(tree_of_msg); decode: the implementation's "
                "encodings, 2 key-permuted/unknown-key-extended re-serialisations per message (Python, from the BEP tree), the "
                "must-reject classes, and the malformed stream (structure-aware mutations, nesting to 1500, every truncation of "
                "some messages, garbage, corpus); every input decoded by the real crate in a supervised child and by the model "
                "inside Coq; checkers c13_encode_bad / c13_conform_bad / c13_variant_bad / c13_reject_bad are evaluated in Coq "
                "on the implementation's outputs.  evaluations = inputs; distinct = distinct inputs.",
        "input_distribution": dist,
    })
    res.samples = [{"message": krpc.render(msgs[0])[:300], "encoded": (enc[0] or "ENCERR")[:300]},
                   {"variant": variants[0][1].hex()[:300], "decoded": decs2[0].canon[:300]} if variants else {},
                   {"malformed": mal[len(krpc.CORPUS)][1].hex()[:200], "class": mal[len(krpc.CORPUS)][0],
                    "impl": decs4[len(krpc.CORPUS)].status}]
    res.assumptions = ["the serde / torrust-serde-bencode / serde_bytes semantics are modelled by hand (Krpc.v header); "
                       "agreement is measured on every input of this run",
                       "unmodelled decoder input classes: none known"]

    # ---- verdicts: property violations first
    def viol(kind, inp, extra):
        v = {"property": PROP, "kind": kind, "input_hex": inp.hex(),
             "how": "echo <input_hex> | %s codec decode   (canonical message, re-encoding); checker evaluated in Coq (run/Run_Krpc.v)"
                    % vlib.HARNESS_BIN}
        v.update(extra)
        res.violations.append(v)

    for name, decs, inputs in (("own", decs1, enc_inputs), ("variant", decs2, [b for _, b in variants]),
                               ("reject", decs3, [b for _, b in rejects]), ("malformed", decs4, mal_inputs)):
        for i in crashed(decs)[:1]:
            viol("decoder-crash", inputs[i], {"status": decs[i].status, "stream": name})
    if enc_bad:
        i = enc_bad[0]
        res.violations.append({"property": PROP, "kind": "encode-not-canonical", "message": krpc.render(msgs[i]),
                               "impl_encoding": enc[i], "expected": krpc.benc(krpc.tree_of(msgs[i]), sort=True).hex(),
                               "how": "echo '<message>' | %s codec encode" % vlib.HARNESS_BIN})
    if rt_bad:
        i = rt_bad[0]
        viol("roundtrip", enc_inputs[i], {"message": krpc.render(enc_msgs[i]), "impl_decoded": decs1[i].canon})
    for bad, decs, inputs, kind in ((bad1, decs1, enc_inputs, "decoded-message-not-conformant"),
                                    (bad4, decs4, mal_inputs, "decoded-message-not-conformant")):
        if bad:
            i = bad[0]
            small = shrink_bytes(inputs[i], "conform")
            d = krpc.run_decode([small])[0]
            viol(kind, small, {"impl_decoded": d.canon, "impl_reencoding": d.reenc})
    if var_bad:
        i = var_bad[0]
        viol("variant-decodes-differently", variants[i][1], {"message": krpc.render(variants[i][0]), "impl_decoded": decs2[i].canon or decs2[i].status})
    if rej_bad:
        i = rej_bad[0]
        viol("must-reject-accepted", rejects[i][1], {"class": rejects[i][0], "impl_decoded": decs3[i].canon})

    # ---- correspondence
    if not res.violations:
        ties = []
        if enc_diffs:
            i = enc_diffs[0]
            ties.append(("correspondence Message::encode: model and implementation differ on %d message(s)" % len(enc_diffs),
                         {"message": krpc.render(msgs[i]), "impl": enc[i]}))
        for name, dd, decs, inputs in (("own encodings", dd1 + ed1, decs1, enc_inputs), ("malformed stream", dd4 + ed4, decs4, mal_inputs),
                                       ("variants", var_md, decs2, [b for _, b in variants]),
                                       ("must-reject classes", rej_md, decs3, [b for _, b in rejects])):
            if dd:
                i = dd[0]
                small = shrink_bytes(inputs[i], "diff")
                d = krpc.run_decode([small])[0]
                ties.append(("correspondence Message::decode (%s): model and implementation differ on %d input(s)" % (name, len(set(dd))),
                             {"input_hex": small.hex(), "impl": d.canon or d.status, "model": krpc.show_model([small])[0]}))
        res.broken_ties.extend(ties)
    return res.finish("proof", LEVEL_NOTE)


def hist(values, edges):
    out = {}
    for v in values:
        lab = None
        for lo, hi in zip(edges, edges[1:] + [None]):
            if hi is None or v < hi:
                lab = "%d" % lo if (hi is not None and hi == lo + 1) else ("%d+" % lo if hi is None else "%d-%d" % (lo, hi - 1))
                if v >= lo:
                    break
        out[lab] = out.get(lab, 0) + 1
    return out


def shrink_bytes(data, what):
    """smallest input (delta debugging) on which the same kind of failure persists"""
    def fails_batch(cands):
        decs = krpc.run_decode(cands)
        terms = [krpc.dcase_term(b, d) for b, d in zip(cands, decs)]
        dd, ed, bad = krpc.eval_lists("c13_shrink", "Dc", "dcase", terms, ["dec_diff", "enc_diff", "c13_conform_bad"])
        hit = set(krpc.flagged(bad)) if what == "conform" else set(krpc.flagged(dd)) | set(krpc.flagged(ed))
        return [i in hit for i in range(len(cands))]
    try:
        return krpc.ddmin(data, fails_batch)
    except Broken:
        return data


def replay(path):
    data = json.load(open(path))
    vlib.ensure_model(RUN_TARGETS)
    ok, out = vlib.build_harness()
    if not ok:
        raise Broken("harness build failed")
    if "input_hex" in data:
        b = bytes.fromhex(data["input_hex"])
        decs, dd, ed, bad = check_decode([b], "replay")
        d = decs[0]
        print("replay: implementation: %s %s reenc=%s" % (d.status, d.canon, d.reenc))
        print("replay: model: %s" % krpc.show_model([b])[0])
        still = False
        kind = data.get("kind")
        if d.status not in ("OK", "ERR"):
            still = True
        elif kind == "decoded-message-not-conformant":
            still = bool(bad)
        elif kind == "must-reject-accepted":
            still = d.status == "OK"
        elif kind in ("variant-decodes-differently", "roundtrip"):
            still = d.msg is None or krpc.render(d.msg) != data.get("message")
        if still:
            print("VIOLATION property=%s replay=%s" % (PROP, path))
            return 1
        print("no violation on the current tree (model/impl differ: %s)" % bool(dd or ed))
        return 0
    if "message" in data and data.get("kind") == "encode-not-canonical":
        m = krpc.parse_canon(data["message"])
        enc, diffs, bad = check_encode([m], "replay")
        print("replay: implementation encoding:", enc[0])
        if bad:
            print("VIOLATION property=%s replay=%s" % (PROP, path))
            return 1
        print("no violation on the current tree")
        return 0
    print("replay file names broken obligations / correspondence only; re-run ./check C13")
    return 0
