"""C11 -- over hours, responsive contacts are kept fresh and silent ones are purged."""
import nodegen
import nodeprop
from simlib import S

PROP = "C11"
MIN = 60 * S
NOTE = ("theorems over the Gallina handler/table model (refresh chain alive, per-round picks, status ageing); the timed run "
        "statements are decided on hours-long simulated runs of the real node (contacts sampled every 5 virtual seconds, "
        "find_node probes every minute); every run short enough is replayed through the Coq handler model")
STATS = {"samples": 0, "probes": 0, "responsive_contacts": 0, "silent_contacts": 0, "questionable_episodes": 0,
         "longest_questionable_ns": 0, "purge_deadlines_checked": 0}


def checker(sc, meta, log, tr):
    out = []
    samples = []
    probes = []
    naddr = meta["naddr"]
    psrc = meta["probe_src"]
    for (t, kind, body) in log:
        if kind == "API_CONTACTS":
            p = body.split()
            if len(p) < 3 or not p[1].startswith("good="):
                out.append({"kind": "load_contacts failed", "t": t, "line": body[:80]})
                continue
            g = set(x for x in p[1][5:].split(",") if x)
            q = set(x for x in p[2][13:].split(",") if x)
            samples.append((t, g, q))
        elif kind == "WIRE":
            head, _, rendered = body.partition(" | ")
            hp = head.split()
            if hp[0] == naddr and hp[1] == psrc and " r id=" in " " + rendered:
                names = set()
                for f in rendered.split(" "):
                    if f.startswith("nodes=") or f.startswith("nodes6="):
                        for x in f.split("=", 1)[1].split(","):
                            if "@" in x:
                                names.add(x.split("@")[1])
                probes.append((t, names))
    STATS["samples"] += len(samples)
    STATS["probes"] += len(probes)
    lat = meta["lat_hi"]
    for c in meta["contacts"]:
        a = c["addr"]
        if c["silent_from"] is None:
            STATS["responsive_contacts"] += 1
            admitted = None
            run_start = None
            for (t, g, q) in samples:
                present = a in g or a in q
                if admitted is None:
                    if present:
                        admitted = t
                    else:
                        continue
                if not present:
                    out.append({"kind": "an always-answering contact disappeared from the contacts after it was admitted",
                                "contact": c["name"], "addr": a, "admitted_at": admitted, "missing_at": t})
                    break
                if a in q:
                    if run_start is None:
                        run_start = t
                        STATS["questionable_episodes"] += 1
                    STATS["longest_questionable_ns"] = max(STATS["longest_questionable_ns"], t - run_start)
                    if t - run_start >= 30 * S:
                        out.append({"kind": "an always-answering contact stayed questionable for 30 s or more",
                                    "contact": c["name"], "addr": a, "questionable_since": run_start, "still_at": t})
                        break
                else:
                    run_start = None
        else:
            STATS["silent_contacts"] += 1
            deadline = c["silent_from"] + lat + 20 * MIN
            if c["named_until"] is not None:
                deadline = max(deadline, c["named_until"] + lat + 5 * MIN)
            for (t, g, q) in samples:
                if t >= deadline:
                    STATS["purge_deadlines_checked"] += 1
                    if a in g or a in q:
                        out.append({"kind": "a contact that went silent is still among the contacts after the purge deadline",
                                    "contact": c["name"], "addr": a, "silent_from": c["silent_from"],
                                    "named_until": c["named_until"], "deadline": deadline, "present_at": t,
                                    "as": "good" if a in g else "questionable"})
                        break
            for (t, names) in probes:
                if t >= deadline + lat and a in names:
                    out.append({"kind": "a contact that went silent is still named in find_node answers after the purge deadline",
                                "contact": c["name"], "addr": a, "deadline": deadline, "named_at": t})
                    break
    return out[:3]


def gen(rng, consts, i, tier):
    if tier == "quick":
        minutes = [45, 70, 100, 130][i % 4]
    else:
        minutes = [45, 70, 130, 200, 300, 480][i % 6]
    return nodegen.gen_keepfresh(rng, consts, minutes)


def post(res, scs, logs, traces):
    res.coverage["observations"] = dict(STATS)
    res.coverage["run_lengths_min"] = sorted(set(m["minutes"] for _, m in scs))
    res.coverage["contacts_per_run"] = sorted(set(len(m["contacts"]) for _, m in scs))


def run(res):
    tier = res.tier
    return nodeprop.run(
        res, PROP, NOTE, lambda rng, consts, i: gen(rng, consts, i, tier), checker, 16, 96,
        "one real node (serving or read-only, IPv4/IPv6) with 1..8 scripted contacts on the loss-free simulated network (one-way "
        "latency up to 2/20/100/200 ms), each contact either always answering or silent from t (t = 0, < 30 s, while good, around the "
        "15 min ageing, later), silent ones never named by others or named until a second time; runs of 45 min .. 8 h without user "
        "activity or with 1-3 searches; single-contact (periodic re-bootstrap) and connected regimes. Checker on load_contacts "
        "samples every 5 s and find_node probes every 60 s: never lost once admitted, questionable for < 30 s, absent after "
        "max(silent + 20 min, last naming + 5 min). evaluations = handler events of the replayed runs; distinct = distinct scenarios.",
        ["one-way latency <= 200 ms (round trip below NODE_TIMEOUT = 0.5 s: above it bootstrap discards late answers as unsolicited)",
         "the timed statements over unbounded runs are decided on the explored runs, not proved (partial)"],
        post=post, sim_timeout=1500, max_validate_events=5000)


def replay(path):
    return nodeprop.replay(PROP, path, None)
