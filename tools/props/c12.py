"""C12 -- the routing table cannot be filled by parties the node did not ask."""
import re

import nodegen
import nodeprop
from nodeprop import parse_rendered, render_map

PROP = "C12"
NOTE = ("theorems over the Gallina handler/table model for all states and datagrams; tied to the code by trace validation of "
        "the real handler and by auditing the real node's table operations and contacts around every injected datagram")


def checker(sc, meta, log, tr):
    rm = render_map(log)
    out = []
    # action prefixes under which this node actually SENT a request (handler sends and bootstrap-task sends), plus the
    # refresh activity's prefix (property: "an action prefix the node never used")
    known_aids = set()
    if 0 in tr.aids:
        known_aids.add(tr.aids[0])
    naddr_txt = sc.node["addr"].script()
    for (t0_, kind0, body0) in log:
        if kind0 == "WIRE":
            head0, _, rendered0 = body0.partition(" | ")
            if head0.split()[0] == naddr_txt and " q=" in " " + rendered0:
                tid0 = rendered0.split(" ")[0][2:]
                if len(tid0) == 16:
                    known_aids.add(int(tid0[:10], 16))
    own_addr = sc.node["addr"].script()
    for e in tr.events:
        if e["kind"] != "EV_MSG":
            continue
        req = parse_rendered(rm.get(e["hex"]))
        if req is None:
            continue
        adds = [x for x in e.get("tops", []) if x[0] == "T_ADDNODES"]
        if req["y"] == "q" and adds:
            out.append({"kind": "a query added nodes to the routing table", "time": e["t"], "received": rm.get(e["hex"])})
        if req["y"] == "r":
            tid = req["t"]
            solicited = len(tid) == 16 and int(tid[:10], 16) in known_aids
            if not solicited and (adds or e["out"]):
                out.append({"kind": "an unsolicited response changed the table or produced output", "time": e["t"],
                            "received": rm.get(e["hex"])})
    # per address: when it last answered one of our queries (handler or bootstrap exchange) or sent us a query
    contact_times = {}
    for e in tr.events:
        if e["kind"] == "EV_MSG":
            req = parse_rendered(rm.get(e["hex"]))
            if req is not None and req["y"] in ("q", "r"):
                contact_times.setdefault(e["src"].script(), []).append(e["t"])
        elif e["kind"] == "BOOT_TABLE":
            contact_times.setdefault(e["handle"][1].script(), []).append(e["t"])
    for (t, kind, body) in log:
        if kind == "API_CONTACTS":
            m = re.match(r"(\S+) good=(\S*) questionable=(\S*)", body)
            if m:
                for g in [x for x in m.group(2).split(",") if x]:
                    if not any(t - 900 * 10**9 <= tc <= t for tc in contact_times.get(g, [])):
                        out.append({"kind": "a contact is reported good although no datagram (answer or query) came from its "
                                            "address in the last 15 minutes", "time": t, "contact": g})
                        break
                alls = [x for x in (m.group(2) + "," + m.group(3)).split(",") if x]
                if own_addr in alls:
                    out.append({"kind": "the node lists its own address as a contact", "time": t})
                for r in sc.node["routers"]:
                    if r.script() in alls:
                        out.append({"kind": "a router address is listed as a contact", "time": t})
        if kind == "PANIC":
            out.append({"kind": "panic", "time": t, "what": body[:200]})
    return out


def gen(rng, consts, i):
    if i % 8 == 5:
        return nodegen.gen_stillborn(rng, consts)
    if i % 4 == 3:
        return nodegen.gen_bootstrap(rng, consts)          # routers and overlapping router/node contacts
    if i % 3 == 2:
        return nodegen.gen_lookup(rng, consts, hostile=True, faults=False, early=False)
    return nodegen.gen_server(rng, consts, many_peers=False, long_times=(i % 4 == 1))


def run(res):
    return nodeprop.run(
        res, PROP, NOTE, gen, checker, 16, 300,
        "bootstrap scenarios with routers (a router must never be listed as a contact, whoever names it and whenever it answers), family A (server traffic incl. unsolicited responses with 0/2/8/12-byte ids, errors, garbage, node lists naming "
        "arbitrary nodes) and family B (searching node under forged responses: wrong action prefix, wrong message id, right id "
        "from another source, replays) scenarios; the checker audits the real node's table operations (hook log) per handled "
        "datagram and its contacts (API); every event is replayed through the Coq model. distinct = distinct scenarios.",
        ["answers to bootstrap exchanges are matched on (source, id) by the socket layer (not handler events): replayed through "
         "model/Socket.v"], socket_replay=True)


def replay(path):
    return nodeprop.replay(PROP, path, None)
