"""Common driver of the three routing-table properties (C08, C09, C10)."""
import json
import os

import comp
import tablegen
import vlib
from vlib import Rng, Broken

CHECKERS = {
    "C08": "c08_ok {local} ops_{i} obs_{i}",
    "C09": "c09_ok {local} ops_{i} obs_{i}",
    "C10": "c10_ok ops_{i} obs_{i}",
}
MODEL_CHECKERS = {
    "C08": "c08_ok {local} ops_{i} (model_obs {local} ops_{i})",
    "C09": "c09_ok {local} ops_{i} (model_obs {local} ops_{i})",
    "C10": "c10_ok ops_{i} (model_obs {local} ops_{i})",
}
RUN_TARGETS = ["run/Run_Table.vo", "run/Run_TableCheck.vo"]


def check_cases(prop, cases, tag="run"):
    obs = tablegen.run_cases(cases)
    blocks = tablegen.eval_cases("%s_%s" % (prop.lower(), tag), cases, obs, [CHECKERS[prop], MODEL_CHECKERS[prop]])
    out = []
    for b, o in zip(blocks, obs):
        out.append((vlib.parse_N_list(b[0]), comp.parse_opt_N(b[1]), comp.parse_opt_N(b[2]), o))
    return out


def load_corpus(prop):
    path = os.path.join(vlib.VERIF, "corpus", prop.lower() + ".json")
    if not os.path.exists(path):
        return []
    out = []
    for c in json.load(open(path)):
        out.append(case_from_script(c))
    return out


def case_from_script(lines):
    c = None
    for l in lines:
        p = l.split()
        if p[0] == "NEW":
            c = tablegen.Case(int(p[1], 16))
        elif p[0] == "ROUTER":
            c.ops.append(("ROUTER", comp.Addr.parse(p[1])))
        elif p[0] == "OFFER":
            c.ops.append(("OFFER", int(p[1]), p[2] == "G", int(p[3], 16), comp.Addr.parse(p[4])))
        elif p[0] == "ADDNODES":
            named = [] if p[4] == "-" else [tablegen.parse_handle_txt(x) for x in p[4].split(",")]
            c.ops.append(("ADDNODES", int(p[1]), int(p[2], 16), comp.Addr.parse(p[3]), named))
        elif p[0] in ("LREQ", "RREQ"):
            c.ops.append((p[0], int(p[1]), int(p[2], 16), comp.Addr.parse(p[3])))
        elif p[0] == "DUMP":
            c.ops.append(("DUMP", int(p[1])))
        elif p[0] == "CLOSEST":
            c.ops.append(("CLOSEST", int(p[1]), int(p[2], 16)))
        elif p[0] == "CONTACTS":
            c.ops.append(("CONTACTS", int(p[1])))
    return c


def run(res, prop, level_note, kinds, n_quick, n_thorough, rule, assumptions, extra=None):
    rng = Rng(res.seed).fork(prop.lower())
    proved = vlib.prove(res, prop, extra_targets=RUN_TARGETS)
    if not proved:
        vlib.ensure_model(RUN_TARGETS)
    ok, out = vlib.build_harness()
    if not ok:
        raise Broken("harness build failed: " + out[-1500:])
    consts = comp.read_consts()
    n = n_quick if res.tier == "quick" else n_thorough
    corpus = load_corpus(prop)
    cases = list(corpus)
    for i in range(n):
        cases.append(tablegen.gen_case(rng.fork("k%d" % i), kinds[i % len(kinds)], consts))
    results = check_cases(prop, cases)
    nops = sum(len(c.ops) for c in cases)
    res.evaluations = nops
    res.traces_validated = len(cases)
    dist = {}
    for c in cases:
        for o in c.ops:
            dist[o[0]] = dist.get(o[0], 0) + 1
        res.distinct.add(json.dumps(c.script())[:30000])
    maxb = 0
    for r in results:
        for l in r[3]:
            if l.startswith("D "):
                maxb = max(maxb, l.count("|") + 1)
    res.samples = [{"script": cases[len(corpus)].script()[:10], "observed": [x[:160] for x in results[len(corpus)][3][:9]]}]
    res.coverage.update({
        "rule": rule,
        "input_distribution": dict(dist, cases=len(cases), corpus_cases=len(corpus), operations=nops, max_buckets_reached=maxb),
    })
    res.assumptions = assumptions
    for idx, (c, (d, iv, mv, o)) in enumerate(zip(cases, results)):
        if mv is not None:
            raise Broken("%s checker rejects the model's own trace (case %d op %d)" % (prop, idx, mv))
        if iv is not None:
            small = tablegen.shrink_case(c, lambda cc: check_cases(prop, [cc], "shrink")[0][1] is not None)
            r = check_cases(prop, [small], "shrink")[0]
            res.violations.append({"property": prop, "kind": "routing-table-observation-violates-" + prop,
                                   "script": small.script(), "observed": r[3], "first_bad_op": r[1],
                                   "how": "harness table < (RESET + script); %s_ok evaluated in Coq on the observed dumps" % prop.lower()})
            break
    if extra:
        extra(res)
    if not res.violations:
        bad = [(idx, r) for idx, r in enumerate(results) if r[0]]
        if bad:
            idx, r = bad[0]
            res.broken_ties.append(("correspondence RoutingTable: model and implementation differ on %d case(s)" % len(bad),
                                    {"script": cases[idx].script(), "differing_ops": r[0][:10],
                                     "observed_at_first_diff": r[3][r[0][0]][:400] if r[0][0] < len(r[3]) else None}))
    return res.finish("proof", level_note)


def replay(prop, path):
    data = json.load(open(path))
    if "script" not in data:
        print("replay file names broken obligations only; re-run ./check " + prop)
        return 0
    vlib.ensure_model(RUN_TARGETS)
    ok, out = vlib.build_harness()
    if not ok:
        raise Broken("harness build failed")
    c = case_from_script(data["script"])
    d, iv, mv, o = check_cases(prop, [c], "replay")[0]
    print("replay: observed", [x[:200] for x in o])
    if iv is not None:
        print("VIOLATION property=%s replay=%s" % (prop, path))
        return 1
    print("no violation on the current tree (model/impl differing ops: %s)" % d)
    return 0
