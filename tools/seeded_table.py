#!/usr/bin/env python3
"""Markdown table of the seeded changes under /verif/seeded (for DESIGN.md 12.8)."""
import json
import os

root = "/verif/seeded"
rows = []
for d in sorted(os.listdir(root)):
    mp = os.path.join(root, d, "meta.json")
    if not os.path.exists(mp):
        continue
    m = json.load(open(mp))
    title = (m.get("title") or m.get("mechanism") or "").replace("|", "/").replace("\n", " ")[:150]
    files = ",".join(os.path.basename(f) for f in m.get("files", []))[:40]
    if not m.get("confirmed"):
        rows.append("| %s | %s | %s | not confirmed: %s | | |" % (d, title, files, (m.get("reject_reason") or "")[:60]))
        continue
    first = m.get("earlier_runs", [{}])[0].get("caught_by") if m.get("earlier_runs") else m.get("caught_by")
    now = m.get("caught_by")
    how = []
    for p, r in m.get("checks", {}).items():
        if r["exit"] == 1:
            how.append(p + (" (no-failing-input-found)" if any("no-failing-input-found" in l for l in r["lines"]) else ""))
    rows.append("| %s | %s | %s | %s | %s | %s |" % (d, title, files, ", ".join(first or []) or "**missed**",
                                                    ", ".join(how) or "**missed**", ""))
print("| seeded change | what it does | files | caught by (first run) | caught by (current checks) | |")
print("|---|---|---|---|---|---|")
print("\n".join(rows))
