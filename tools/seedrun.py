#!/usr/bin/env python3
"""Run the checks against seeded changes (mutants) produced by independent sub-agents.
usage: seedrun.py <PROP> <k> [extra props to run ...]
Reads /tmp/mut/<PROP>-out/m<k>.{diff}, m<k>-demo.md, m<k>-meta.json; confirms in the scratch worktree /tmp/mut/<PROP> that the
change compiles (with and without the hook cfg) and passes the crate's tests; applies it to /repo, runs ./check for the property
(and the extra ones), undoes it; stores everything under /verif/seeded/<PROP>-m<k>/."""
import json
import os
import shutil
import subprocess
import sys
import time

VERIF = "/verif"


def sh(cmd, cwd=None, timeout=3600, env=None):
    e = dict(os.environ)
    e.update({"CARGO_NET_OFFLINE": "true"})
    if env:
        e.update(env)
    p = subprocess.run(cmd, shell=True, cwd=cwd, stdout=subprocess.PIPE, stderr=subprocess.STDOUT, text=True, timeout=timeout, env=e)
    return p.returncode, p.stdout


def main():
    global VERIF
    args = sys.argv[1:]
    lane = None
    if args[0] == "--lane":
        # parallel lane: a private copy of /verif (rsync'ed by the caller) checks the scratch worktree through VERIF_REPO
        lane = args[1]
        args = args[2:]
    prop, k = args[0], args[1]
    extra = args[2:]
    root = os.environ.get("MUT_ROOT", "/tmp/mut")          # round 2 lives in /tmp/mut2
    tagr = os.environ.get("MUT_TAG", "")                   # e.g. "r2" -> seeded/C01-r2m1
    src = "%s/%s-out" % (root, prop)
    wt = "%s/%s" % (root, prop)
    diff = os.path.join(src, "m%s.diff" % k)
    out = os.path.join("/verif", "seeded", "%s-%sm%s" % (prop, tagr, k))
    os.makedirs(out, exist_ok=True)
    shutil.copy(diff, os.path.join(out, "patch.diff"))
    for suffix, name in (("-demo.md", "demo.md"),):
        if os.path.exists(os.path.join(src, "m%s%s" % (k, suffix))):
            shutil.copy(os.path.join(src, "m%s%s" % (k, suffix)), os.path.join(out, name))
    meta = {}
    mp = os.path.join(src, "m%s-meta.json" % k)
    if os.path.exists(mp):
        try:
            meta = json.load(open(mp))
        except Exception as e:
            meta = {"meta_unreadable": str(e)}
    meta["seeded_for"] = prop
    prev = os.path.join(out, "meta.json")
    if os.path.exists(prev):
        try:
            old = json.load(open(prev))
            hist = old.get("earlier_runs", [])
            if "checks" in old:
                hist.append({"caught_by": old.get("caught_by"), "checks": {p: r.get("exit") for p, r in old["checks"].items()},
                             "note": "before the checks were strengthened (see DESIGN.md 12.8)"})
            meta["earlier_runs"] = hist
        except Exception:
            pass
    # 1. confirm in the scratch worktree
    sh("git checkout -- . && git clean -fdq -e target", cwd=wt)
    c, o = sh("git apply --whitespace=nowarn %s" % diff, cwd=wt)
    if c != 0:
        meta["confirmed"] = False
        meta["reject_reason"] = "patch does not apply: " + o[-300:]
        json.dump(meta, open(os.path.join(out, "meta.json"), "w"), indent=1)
        print(prop, k, "REJECT (apply)")
        return
    c1, o1 = sh("cargo test --offline 2>&1 | tail -15", cwd=wt)
    ok_tests = c1 == 0 and "FAILED" not in o1 and "error:" not in o1 and "error[" not in o1 and "test result: ok" in o1
    c2, o2 = sh('RUSTFLAGS="--cfg btdht_verif" cargo build --offline --lib 2>&1 | tail -5', cwd=wt, env={"CARGO_TARGET_DIR": wt + "/target/verifcfg"})
    ok_cfg = c2 == 0 and "error:" not in o2 and "error[" not in o2 and "Finished" in o2
    if lane is None:
        sh("git checkout -- . && git clean -fdq -e target", cwd=wt)
    meta["confirmed_tests_pass"] = ok_tests
    meta["confirmed_builds_with_hooks"] = ok_cfg
    if not (ok_tests and ok_cfg):
        sh("git checkout -- . && git clean -fdq -e target", cwd=wt)
        meta["confirmed"] = False
        meta["reject_reason"] = "tests: %s | cfg build: %s" % (o1[-400:], o2[-300:])
        json.dump(meta, open(os.path.join(out, "meta.json"), "w"), indent=1)
        print(prop, k, "REJECT (tests/cfg)")
        return
    meta["confirmed"] = True
    # 2. run the checks with the change applied (to /repo, or in a lane to the scratch worktree seen through VERIF_REPO)
    env = None
    if lane is None:
        c, o = sh("git -C /repo status --short")
        if o.strip():
            raise SystemExit("/repo is not clean: " + o)
        c, o = sh("git -C /repo apply --whitespace=nowarn %s" % diff)
        vdir = VERIF
    else:
        vdir = "/tmp/vlane%s" % lane
        env = {"VERIF_REPO": wt}
        sh("sed -i 's#^btdht = { path = .*#btdht = { path = \"%s\" }#' %s/harness/Cargo.toml" % (wt, vdir))
    results = {}
    try:
        for p in [prop] + extra:
            t = time.time()
            c, o = sh("./check %s" % p, cwd=vdir, timeout=5400, env=env)
            lines = [l for l in o.split("\n") if l.startswith(("VIOLATION", "OK ", "KNOWN-FINDING", "BROKEN"))]
            results[p] = {"exit": c, "lines": [l[:400] for l in lines], "seconds": round(time.time() - t)}
            rep = [l for l in lines if l.startswith("VIOLATION")]
            if rep and "replay=" in rep[0]:
                rp = rep[0].split("replay=")[1].split()[0]
                if os.path.exists(rp):
                    shutil.copy(rp, os.path.join(out, "replay-%s.json" % p))
    finally:
        if lane is None:
            sh("git -C /repo checkout -- .")
        else:
            sh("git checkout -- . && git clean -fdq -e target", cwd=wt)
    meta["checks"] = results
    meta["caught_by"] = [p for p, r in results.items() if r["exit"] == 1]
    json.dump(meta, open(os.path.join(out, "meta.json"), "w"), indent=1)
    print(prop, k, "caught_by", meta["caught_by"], {p: r["seconds"] for p, r in results.items()})


if __name__ == "__main__":
    main()
