"""Driver shared by the node-run properties: scenarios -> simulated runs of the real node ->
(1) replay of the handler model on the logged events (trace validation, in Coq),
(2) the property's checker on the wire / API observations."""
import json
import os
import re

import comp
import simlib
import vlib
from vlib import Rng, Broken

RUN_TARGETS = ["run/Run_Handler.vo", "run/Run_Socket.vo"]


def render_map(log):
    """hex datagram -> canonical rendering by the real decoder (from the hub's WIRE lines)."""
    m = {}
    for t, kind, body in log:
        if kind == "WIRE":
            head, _, rendered = body.partition(" | ")
            parts = head.split()
            m[parts[3]] = rendered
    return m


def parse_rendered(r):
    """canonical message text -> dict"""
    if r == "UNDECODABLE" or r is None:
        return None
    p = r.split(" ")
    d = {"t": p[0][2:]}
    if len(p) > 1 and p[1].startswith("q="):
        d["y"] = "q"
        d["q"] = p[1][2:]
    elif len(p) > 1 and p[1] == "r":
        d["y"] = "r"
    else:
        d["y"] = "e"
    for x in p[2:]:
        k, _, v = x.partition("=")
        d[k] = v
    return d


def split_list(v):
    return [x for x in v.split(",") if x] if v not in (None, "", "-") else []


def shrink_scenario(lines, fails):
    """Greedy removal of timeline (`at ...`) lines while `fails(lines)` stays true."""
    def trim(ls):
        """end the run two virtual minutes after the last scripted action"""
        ats = [int(l.split()[1]) for l in ls if l.startswith("at ")]
        if not ats:
            return ls
        out = []
        for l in ls:
            if l.startswith("end "):
                l = "end %d" % min(int(l.split()[1]), max(ats) + 120 * 10**9)
            out.append(l)
        return out

    cur = list(lines)
    idx = [i for i, l in enumerate(cur) if l.startswith("at ")]
    chunk = max(1, len(idx) // 2)
    while chunk >= 1:
        i = 0
        changed = False
        idx = [k for k, l in enumerate(cur) if l.startswith("at ")]
        while i < len(idx):
            drop = set(idx[i:i + chunk])
            cand = trim([l for k, l in enumerate(cur) if k not in drop])
            try:
                bad = fails(cand)
            except Broken:
                bad = False
            if bad:
                cur = cand
                idx = [k for k, l in enumerate(cur) if l.startswith("at ")]
                changed = True
            else:
                i += chunk
        if not changed:
            chunk //= 2
    return cur


def run(res, prop, note, gen, checker, n_quick, n_thorough, rule, assumptions, validate=True, post=None,
        max_validate_events=2500, sim_timeout=300, socket_replay=False):
    proved = vlib.prove(res, prop, extra_targets=RUN_TARGETS)
    if not proved:
        vlib.ensure_model(RUN_TARGETS)
    ok, out = vlib.build_harness()
    if not ok:
        raise Broken("harness build failed: " + out[-1500:])
    explore(res, prop, gen, checker, n_quick, n_thorough, rule, assumptions, validate, post, max_validate_events, sim_timeout,
            socket_replay=socket_replay)
    return res.finish("proof", note)


def explore(res, prop, gen, checker, n_quick, n_thorough, rule, assumptions, validate=True, post=None,
            max_validate_events=2500, sim_timeout=300, part=None, socket_replay=False):
    """Node runs for `prop`: simulate, check, shrink, validate traces against the model. With `part` (a name) the results are
    recorded as an additional part of a check that has other parts (coverage under that key; counters added, not replaced)."""
    rng = Rng(res.seed).fork(prop.lower() + (part or ""))
    consts = comp.read_consts()
    n = n_quick if res.tier == "quick" else n_thorough
    corpus = load_corpus(prop)
    scs = list(corpus)
    for i in range(n):
        scs.append(gen(rng.fork("k%d" % i), consts, i))
    logs = simlib.run_sims([sc.text() for sc, _ in scs], timeout=sim_timeout)
    traces = [simlib.Trace(l, sc.node) if sc.node else None for l, (sc, _) in zip(logs, scs)]
    nev = sum(len(t.events) for t in traces if t)
    if part:
        res.evaluations = (res.evaluations or 0) + nev
        res.traces_validated = (getattr(res, "traces_validated", 0) or 0) + sum(1 for t in traces if t)
    else:
        res.evaluations = nev
        res.traces_validated = sum(1 for t in traces if t)
    for sc, _ in scs:
        res.distinct.add(sc.text())
    dist = {"scenarios": len(scs), "corpus": len(corpus), "handler_events": nev,
            "log_lines": sum(len(l) for l in logs)}
    kinds = {}
    for l in logs:
        for _, k, _ in l:
            if k in ("EV_MSG", "EV_TIMER", "EV_CMD", "EV_BOOT", "SEND", "YIELD", "FINISHED", "REFRESH_ROUND", "PANIC",
                     "SENDFAIL", "DROP", "LOOKUP_START"):
                kinds[k] = kinds.get(k, 0) + 1
    dist.update(kinds)
    extra_assumptions = assumptions + [
        "A-ORDER: the hook's log order is the order in which the handler processed events",
        "A-TIME: one clock reading per handler call (exact under the paused tokio clock)"]
    if part:
        res.coverage[part] = {"rule": rule, "input_distribution": dist}
        res.assumptions = list(res.assumptions or []) + [a for a in extra_assumptions if a not in (res.assumptions or [])]
    else:
        res.samples = [{"scenario_head": scs[len(corpus)][0].lines[:8],
                        "log_head": ["%d %s %s" % (t, k, b[:120]) for t, k, b in logs[len(corpus)][:10]]}]
        res.coverage.update({"rule": rule, "input_distribution": dist})
        res.assumptions = extra_assumptions

    # (2) the property's own checker on what the real node did
    for i, ((sc, meta), log, tr) in enumerate(zip(scs, logs, traces)):
        v = checker(sc, meta, log, tr)
        if v:
            def fails(lines):
                s2 = simlib.Scenario()
                s2.lines = lines
                s2.node = sc.node
                lg = simlib.run_sim(s2.text(), timeout=sim_timeout)
                t2 = simlib.Trace(lg, sc.node) if sc.node else None
                return bool(checker(s2, meta, lg, t2))
            small = shrink_scenario(sc.lines, fails)
            s2 = simlib.Scenario()
            s2.lines = small
            s2.node = sc.node
            lg = simlib.run_sim(s2.text(), timeout=sim_timeout)
            v2 = checker(s2, meta, lg, simlib.Trace(lg, sc.node) if sc.node else None) or v
            res.violations.append({"property": prop, "kind": v2[0]["kind"], "what": v2[0], "scenario": small,
                                   "how": "harness sim < scenario; the property checker runs on the log of the real node"})
            break
    if post:
        post(res, scs, logs, traces)
    # (0) the socket layer: every datagram's routing (pending exchange / handler / dropped) replayed through model/Socket.v
    if socket_replay and not res.violations:
        sel = [(sc, l) for (sc, _), l in zip(scs, logs) if sc.node and sum(1 for _, k, _ in l if k == "RECV") <= 4000]
        if sel:
            evs, bads = simlib.validate_socket(prop.lower() + "_sock" + (part or ""), [l for _, l in sel])
            nbad = [(sc, e, b) for (sc, _), e, b in zip(sel, evs, bads) if b]
            res.coverage["socket_replay" + ("_" + part if part else "")] = {
                "runs": len(sel), "events": sum(len(e) for e in evs),
                "datagrams_to_pending_exchanges": sum(1 for e in evs for x in e if x[0] == "recv" and x[3] == 1),
                "datagrams_to_handler": sum(1 for e in evs for x in e if x[0] == "recv" and x[3] == 2),
                "undecodable": sum(1 for e in evs for x in e if x[0] == "recv" and x[3] == 0),
                "registrations": sum(1 for e in evs for x in e if x[0] == "reg"),
                "runs_with_differences": len(nbad)}
            if nbad:
                sc, e, b = nbad[0]
                x = e[b[0]]
                res.broken_ties.append(("correspondence socket layer: the model routes a datagram differently from the real socket "
                                        "(or a registration hit a pending key) in %d run(s)" % len(nbad),
                                        {"first_differing_event_index": b[0], "event": [str(y)[:200] for y in x],
                                         "scenario": sc.lines[:400]}))
    # (1) trace validation of the handler model
    if validate and not res.violations:
        vt = [t for t in traces if t and len(t.events) <= max_validate_events]
        res.coverage["traces_too_long_for_replay"] = sum(1 for t in traces if t and len(t.events) > max_validate_events)
        blocks = simlib.validate_traces(prop.lower() + "_tv", vt)
        bad = []
        for t, b in zip(vt, blocks):
            d = vlib.parse_N_list(b[0])
            if d:
                bad.append((t, d))
        res.coverage["trace_validation" + ("_" + part if part else "")] = {"traces": len(vt), "traces_with_differences": len(bad)}
        if bad:
            t, d = bad[0]
            e = t.events[d[0]]
            res.broken_ties.append(("correspondence handler model: the model's outputs differ from the real node's on %d trace(s)" % len(bad),
                                    {"first_differing_event_index": d[0], "event_kind": e["kind"], "event_time": e["t"],
                                     "observed_outputs": [str(o)[:300] for o in e["out"]][:6],
                                     "scenario": [sc for sc, _ in scs if sc.node is t.node][0].lines[:400]}))


def load_corpus(prop):
    path = os.path.join(vlib.VERIF, "corpus", prop.lower() + "_sim.json")
    if not os.path.exists(path):
        return []
    out = []
    for c in json.load(open(path)):
        sc = simlib.Scenario()
        sc.lines = c["lines"]
        n = c.get("node")
        if n:
            sc.node = {"name": n["name"], "addr": comp.Addr.parse(n["addr"]), "id": int(n["id"], 16), "ro": n["ro"],
                       "aport": n["aport"], "routers": [comp.Addr.parse(a) for a in n.get("routers", [])],
                       "nodes": [], "start": n.get("start", 0)}
        out.append((sc, c.get("meta", {})))
    return out


def replay(prop, path, checker_of_meta):
    data = json.load(open(path))
    if "scenario" not in data:
        print("replay file names broken obligations only; re-run ./check " + prop)
        return 0
    ok, out = vlib.build_harness()
    if not ok:
        raise Broken("harness build failed")
    log = simlib.run_sim("\n".join(data["scenario"]) + "\n")
    for t, k, b in log:
        if k in ("WIRE", "PANIC", "STREAM", "STREAM_END", "API_STATE", "BOOTED"):
            print(t, k, b[:200])
    print("replay executed; property-specific verdict: re-run ./check %s (the scenario is in the corpus format)" % prop)
    return 0
