"""Scenario generators for node runs (one traced real node + scripted responders / virtual sources)."""
import comp
import simlib
from simlib import S, MS

MIN = 60 * S
HOUR = 3600 * S
DAY = 24 * HOUR


def rand_tid(rng):
    n = rng.choice([0, 1, 2, 2, 4, 8, 8, 16, 31, 32, rng.range(0, 32)])
    return rng.bytes(n).hex()


def want_txt(rng):
    return rng.choice(["-", "-", "n4", "n6", "both"])


def addr_in_family(rng, v6, base):
    if v6:
        return comp.Addr(True, (0x20010DB8 << 96) | base, rng.range(1024, 65000))
    return comp.Addr(False, (10 << 24) | base, rng.range(1024, 65000))


def gen_server(rng, consts, many_peers=False, long_times=False):
    """Family A: a (mostly serving) node receiving every kind of query and non-query traffic."""
    sc = simlib.Scenario()
    v6 = rng.chance(1, 4)
    ro = rng.chance(1, 5)
    own = comp.rand_id(rng)
    naddr = addr_in_family(rng, v6, 1)
    sc.add("seed %d" % rng.below(1 << 30))
    sc.add("latency %d %d" % (1 * MS, 30 * MS))
    # contacts: responders that answer (and name each other + a few silent ones)
    nresp = rng.choice([0, 0, 1, 2, 3, 5])
    if long_times:
        nresp = 0      # without contacts the node is quiet between refresh rounds: long spans stay cheap
    resps = []
    world = []
    for i in range(nresp):
        a = addr_in_family(rng, v6, 100 + i)
        idv = comp.rand_id(rng) if rng.chance(2, 3) else own ^ (1 << rng.below(160))
        mode = "normal" if i == 0 or rng.chance(3, 4) else "silent"
        sc.add_resp("r%d" % i, a, idv, mode)
        resps.append((a, idv))
        world.append((idv, a))
    # extra names that do not exist (hearsay)
    for i in range(rng.range(0, 6)):
        world.append((comp.rand_id(rng), addr_in_family(rng, v6, 200 + i)))
    if world:
        sc.add("world " + " ".join("%040x@%s" % (i, a.script()) for i, a in world))
    sc.add_node("n", naddr, own, ro=ro, aport=None, nodes=[a for a, _ in resps[:3]])
    meta = {"v6": v6, "ro": ro, "own": own, "naddr": naddr}
    srcs = [addr_in_family(rng, v6, 1000 + i) for i in range(rng.range(2, 6))]
    src_ids = [comp.rand_id(rng) for _ in srcs]
    hashes = [comp.rand_id(rng) for _ in range(rng.range(1, 3))]
    t = 2 * S
    n_ops = rng.range(30, 90)
    got_token = set()

    def step_time():
        nonlocal t
        r = rng.below(20)
        if r < 12:
            t += rng.choice([0, 1 * MS, 10 * MS, 1 * S, 7 * S])
        elif r < 15:
            t += rng.below(20 * S)
        elif long_times and r < 19:
            t += rng.choice([10 * MIN, 10 * MIN - S, 10 * MIN + S, 20 * MIN, 30 * MIN, 15 * MIN]) + rng.choice([-1, 0, 1])
        else:
            t += rng.below(30 * S)

    if many_peers:
        ih = hashes[0]
        n = rng.choice([60, 110, 150, 210])
        for i in range(n):
            a = addr_in_family(rng, v6, 5000 + i)
            sc.add("at %d injectmsg %s %s t=%s q=get_peers id=%040x ih=%040x want=-" % (
                t, a.script(), naddr.script(), "aa%02x" % (i % 256), comp.rand_id(rng), ih))
            sc.add("at %d injectann %s %s tid=%s id=%040x ih=%040x port=%s tok=last" % (
                t + 60 * MS, a.script(), naddr.script(), "bb%02x" % (i % 256), comp.rand_id(rng), ih,
                "-" if i % 2 else str(1000 + i)))
            t += 1 * MS
        t += 200 * MS
    for _ in range(n_ops):
        step_time()
        k = rng.below(len(srcs))
        src, sid = srcs[k], src_ids[k]
        r = rng.below(24)
        tid = rand_tid(rng)
        if r < 3:
            sc.add("at %d injectmsg %s %s t=%s q=ping id=%040x" % (t, src.script(), naddr.script(), tid, sid))
        elif r < 7:
            tr = rng.below(4)
            tgt = own if tr == 0 else (own ^ (1 << rng.below(160)) if tr == 1 else comp.rand_id(rng))
            sc.add("at %d injectmsg %s %s t=%s q=find_node id=%040x target=%040x want=%s" % (
                t, src.script(), naddr.script(), tid, sid, tgt, want_txt(rng)))
        elif r < 12:
            sc.add("at %d injectmsg %s %s t=%s q=get_peers id=%040x ih=%040x want=%s" % (
                t, src.script(), naddr.script(), tid, sid, rng.choice(hashes), want_txt(rng)))
            got_token.add(k)
        elif r < 17:
            variant = rng.choice(["last", "last", "last", "flip", "short", "long", "zero", "empty"])
            if rng.chance(1, 6) and len(srcs) > 1:
                other = srcs[(k + 1) % len(srcs)]
                variant = "other@" + other.script()
            port = "-" if rng.chance(1, 2) else str(rng.range(1, 65535))
            sc.add("at %d injectann %s %s tid=%s id=%040x ih=%040x port=%s tok=%s" % (
                t, src.script(), naddr.script(), tid if tid else "00", sid, rng.choice(hashes), port, variant))
        elif r < 19:
            # an unsolicited response
            tl = rng.choice([8, 8, 8, 2, 0, 12])
            sc.add("at %d injectmsg %s %s t=%s r id=%040x values= nodes=%s nodes6= token=-" % (
                t, src.script(), naddr.script(), rng.bytes(tl).hex(), sid,
                "" if v6 else ",".join("%040x@%s" % (comp.rand_id(rng), addr_in_family(rng, False, 300 + j).script()) for j in range(rng.range(0, 3)))))
        elif r < 20:
            sc.add("at %d injectmsg %s %s t=%s e code=%d text=%s" % (
                t, src.script(), naddr.script(), tid, rng.choice([201, 202, 203, 204, 0, 255]), "6f6f7073"))
        elif r < 22:
            sc.add("at %d inject %s %s %s" % (t, src.script(), naddr.script(), rng.bytes(rng.range(1, 40)).hex()))
        else:
            sc.add("at %d contacts n" % t)
    sc.add("at %d state n" % (t + 1 * S))
    sc.add("end %d" % (t + 3 * S))
    return sc, meta
