"""Scenario generators for node runs (one traced real node + scripted responders / virtual sources)."""
import comp
import simlib
from simlib import S, MS

MIN = 60 * S
HOUR = 3600 * S
DAY = 24 * HOUR


def rand_tid(rng):
    n = rng.choice([0, 1, 2, 2, 4, 8, 8, 16, 31, 32, rng.range(0, 32), rng.range(0, 32), rng.choice([33, 100, 799, 800, 801, 1200])])
    return rng.bytes(n).hex()


def want_txt(rng):
    return rng.choice(["-", "-", "n4", "n6", "both"])


def addr_in_family(rng, v6, base, special=False):
    if v6 and special:
        # IPv4-mapped (::ffff:a.b.c.d) and IPv4-compatible forms: still IPv6 socket addresses
        return comp.Addr(True, ((0xFFFF << 32) if rng.chance(2, 3) else 0) | (10 << 24) | base, rng.range(1024, 65000))
    if v6:
        return comp.Addr(True, (0x20010DB8 << 96) | base, rng.range(1024, 65000))
    return comp.Addr(False, (10 << 24) | base, rng.range(1024, 65000))


def gen_server(rng, consts, many_peers=False, long_times=False, mapped_sources=False):
    """Family A: a (mostly serving) node receiving every kind of query and non-query traffic."""
    sc = simlib.Scenario()
    v6 = rng.chance(1, 4) or mapped_sources
    ro = rng.chance(1, 5) and not mapped_sources
    own = comp.rand_id(rng)
    naddr = addr_in_family(rng, v6, 1)
    sc.add("seed %d" % rng.below(1 << 30))
    sc.add("latency %d %d" % (1 * MS, 30 * MS))
    # contacts: responders that answer (and name each other + a few silent ones)
    nresp = rng.choice([0, 0, 1, 2, 3, 5])
    if long_times:
        nresp = 0      # without contacts the node is quiet between refresh rounds: long spans stay cheap
    resps = []
    world = []
    for i in range(nresp):
        a = addr_in_family(rng, v6, 100 + i, special=(rng.chance(1, 2) if i == 0 else rng.chance(1, 3)))
        idv = comp.rand_id(rng) if rng.chance(2, 3) else own ^ (1 << rng.below(160))
        mode = "normal" if i == 0 or rng.chance(3, 4) else "silent"
        sc.add_resp("r%d" % i, a, idv, mode)
        resps.append((a, idv))
        world.append((idv, a))
    # extra names that do not exist (hearsay)
    for i in range(rng.range(0, 6)):
        world.append((comp.rand_id(rng), addr_in_family(rng, v6, 200 + i, special=rng.chance(1, 3))))
    if world:
        sc.add("world " + " ".join("%040x@%s" % (i, a.script()) for i, a in world))
    ro_default = ro and rng.chance(1, 2)       # read-only by NOT configuring it: the builder's documented default
    sc.add_node("n", naddr, own, ro=ro, aport=None, nodes=[a for a, _ in resps[:3]], ro_default=ro_default)
    meta = {"v6": v6, "ro": ro, "own": own, "naddr": naddr}
    # (mapped_sources: a dual-stack node sees its IPv4 clients as ::ffff:a.b.c.d)
    srcs = [addr_in_family(rng, v6, 1000 + i, special=(rng.chance(2, 3) if mapped_sources else rng.chance(1, 3)))
            for i in range(rng.range(2, 6))]
    src_ids = [comp.rand_id(rng) for _ in srcs]
    hashes = [comp.rand_id(rng) for _ in range(rng.range(1, 3))]
    t = 2 * S
    n_ops = rng.range(30, 90)
    got_token = set()

    def step_time():
        nonlocal t
        r = rng.below(20)
        if r < 12:
            t += rng.choice([0, 1 * MS, 10 * MS, 1 * S, 7 * S])
        elif r < 15:
            t += rng.below(20 * S)
        elif long_times and r < 19:
            t += rng.choice([10 * MIN, 10 * MIN - S, 10 * MIN + S, 20 * MIN, 30 * MIN, 15 * MIN]) + rng.choice([-1, 0, 1])
        else:
            t += rng.below(30 * S)

    if many_peers:
        ih = hashes[0]
        n = rng.choice([60, 110, 150, 210])
        for i in range(n):
            a = addr_in_family(rng, v6, 5000 + i)
            sc.add("at %d injectmsg %s %s t=%s q=get_peers id=%040x ih=%040x want=-" % (
                t, a.script(), naddr.script(), "aa%02x" % (i % 256), comp.rand_id(rng), ih))
            sc.add("at %d injectann %s %s tid=%s id=%040x ih=%040x port=%s tok=last" % (
                t + 60 * MS, a.script(), naddr.script(), "bb%02x" % (i % 256), comp.rand_id(rng), ih,
                "-" if i % 2 else str(1000 + i)))
            t += 1 * MS
        t += 200 * MS
    for _ in range(n_ops):
        step_time()
        k = rng.below(len(srcs))
        src, sid = srcs[k], src_ids[k]
        r = rng.below(24)
        tid = rand_tid(rng)
        if r < 3:
            sc.add("at %d injectmsg %s %s t=%s q=ping id=%040x" % (t, src.script(), naddr.script(), tid, sid))
        elif r < 7:
            tr = rng.below(4)
            tgt = own if tr == 0 else (own ^ (1 << rng.below(160)) if tr == 1 else comp.rand_id(rng))
            sc.add("at %d injectmsg %s %s t=%s q=find_node id=%040x target=%040x want=%s" % (
                t, src.script(), naddr.script(), tid, sid, tgt, want_txt(rng)))
        elif r < 12:
            sc.add("at %d injectmsg %s %s t=%s q=get_peers id=%040x ih=%040x want=%s" % (
                t, src.script(), naddr.script(), tid, sid, rng.choice(hashes), want_txt(rng)))
            got_token.add(k)
        elif r < 17:
            variant = rng.choice(["last", "last", "last", "last", "flip", "short", "long", "zero", "empty", "huge"])
            if rng.chance(1, 6) and len(srcs) > 1:
                other = srcs[(k + 1) % len(srcs)]
                variant = "other@" + other.script()
            port = "-" if rng.chance(1, 2) else str(rng.range(1, 65535))
            sc.add("at %d injectann %s %s tid=%s id=%040x ih=%040x port=%s tok=%s" % (
                t, src.script(), naddr.script(), tid if tid else "00", sid, rng.choice(hashes), port, variant))
        elif r < 19:
            # an unsolicited response
            tl = rng.choice([8, 8, 8, 2, 0, 12])
            sc.add("at %d injectmsg %s %s t=%s r id=%040x values= nodes=%s nodes6= token=-" % (
                t, src.script(), naddr.script(), rng.bytes(tl).hex(), sid,
                "" if v6 else ",".join("%040x@%s" % (comp.rand_id(rng), addr_in_family(rng, False, 300 + j).script()) for j in range(rng.range(0, 3)))))
        elif r < 20:
            sc.add("at %d injectmsg %s %s t=%s e code=%d text=%s" % (
                t, src.script(), naddr.script(), tid, rng.choice([201, 202, 203, 204, 0, 255]), "6f6f7073"))
        elif r < 21:
            sc.add("at %d inject %s %s %s" % (t, src.script(), naddr.script(), rng.bytes(rng.range(1, 40)).hex()))
        elif r < 22 and world:
            # a query that merely CLAIMS the id of a node the table may know (named by a contact), from another address
            wid, _ = world[rng.below(len(world))]
            if rng.chance(1, 2):
                sc.add("at %d injectmsg %s %s t=%s q=ping id=%040x" % (t, src.script(), naddr.script(), tid, wid))
            else:
                sc.add("at %d injectmsg %s %s t=%s q=find_node id=%040x target=%040x want=-" % (
                    t, src.script(), naddr.script(), tid, wid, comp.rand_id(rng)))
            sc.add("at %d contacts n" % (t + 1 * MS))
        else:
            sc.add("at %d contacts n" % t)
    sc.add("at %d state n" % (t + 1 * S))
    sc.add("end %d" % (t + 3 * S))
    return sc, meta


def place_ids(rng, n, target, own, style):
    """ids of n virtual nodes: uniform, clustered around the target or around the searcher's id"""
    ids = set()
    while len(ids) < n:
        if style == "uniform":
            x = comp.rand_id(rng)
        else:
            centre = target if style == "near_target" else own
            depth = rng.range(120, 158) if rng.chance(2, 3) else rng.range(1, 160)
            low = (1 << (160 - depth)) - 1
            x = (centre & ~low & ((1 << 160) - 1)) | (int.from_bytes(rng.bytes(20), "big") & low)
        if x != own:
            ids.add(x)
    return list(ids)


def gen_lookup(rng, consts, hostile=False, faults=False, early=False, sizes=None, as_routers=False):
    """Family B: one real node searching in a world of scripted responders."""
    sc = simlib.Scenario()
    v6 = rng.chance(1, 5)
    own = comp.rand_id(rng)
    target = comp.rand_id(rng)
    naddr = addr_in_family(rng, v6, 1)
    n = rng.choice(sizes or [1, 2, 7, 8, 9, 12, 30, 60])
    style = rng.choice(["uniform", "near_target", "near_own"])
    ids = place_ids(rng, n, target, own, style)
    sc.add("seed %d" % rng.below(1 << 30))
    lat_hi = rng.choice([5 * MS, 50 * MS, 300 * MS, 999 * MS]) if not faults else rng.choice([50 * MS, 600 * MS, 1400 * MS])
    sc.add("latency %d %d" % (0, lat_hi // 2))          # one-way; round trip < lat_hi
    world = []
    modes = {}
    for i, idv in enumerate(ids):
        a = addr_in_family(rng, v6, 100 + i)
        mode = "normal"
        if faults:
            mode = rng.choice(["normal", "normal", "normal", "silent", "error", "garbage", "nonodes"])
        sc.add_resp("r%d" % i, a, idv, mode, toklen=rng.choice([4, 8, 20, 1, 33]))
        world.append((idv, a))
        modes[a.key()] = mode
    # peers held by some responders
    peer_pool = [comp.rand_addr(rng, v6) for _ in range(rng.range(0, 6))]
    holders = []
    for i in range(len(ids)):
        if peer_pool and rng.chance(1, 3):
            ps = [rng.choice(peer_pool) for _ in range(rng.range(1, 3))]
            sc.add("peers r%d %040x %s" % (i, target, ",".join(p.script() for p in ps)))
            holders.append((i, ps))
    sc.add("world " + " ".join("%040x@%s" % (i, a.script()) for i, a in world))
    contacts = [a for _, a in rng_sample(rng, world, rng.range(1, min(8, len(world))))]
    ro = rng.chance(1, 2)
    aport = None if rng.chance(1, 2) else rng.range(1, 65535)
    if as_routers:
        # contacts configured as routers only: they never enter the table, the node knows only whom they name, and (with fewer
        # than 10 good nodes) never reaches the Bootstrapped state -- no refresh timer runs beside the search's own timers
        sc.add_node("n", naddr, own, ro=ro, aport=aport, nodes=[], routers=contacts[:2])
    else:
        sc.add_node("n", naddr, own, ro=ro, aport=aport, nodes=contacts)
    if faults and rng.chance(1, 2):
        sc.add("loss %d" % rng.choice([50, 200]))
    if faults and rng.chance(1, 3):
        sc.add("dup %d" % rng.choice([100, 300]))
    if faults and rng.chance(1, 3):
        t0 = rng.range(0, 6) * S
        sc.add("sendfail %s %d %d %d" % (naddr.script(), t0, t0 + rng.range(1, 3) * S, rng.choice([1000, 500])))
    sc.add("at 0 boot n b0")
    t = 0 if early else rng.choice([3 * S, 6 * S, 20 * S])
    searches = []
    for k in range(rng.choice([1, 1, 2, 3])):
        ih = target if k == 0 or rng.chance(1, 2) else comp.rand_id(rng)
        an = rng.chance(2, 3)
        sc.add("at %d search n %040x %d s%d" % (t, ih, 1 if an else 0, k))
        searches.append({"tag": "s%d" % k, "ih": ih, "announce": an, "t": t})
        if as_routers or rng.chance(1, 4):
            # API calls while the search is under way (non-timer events for the handler loop)
            for dt in (700 * MS, 2 * S, 2900 * MS):
                sc.add("at %d state n" % (t + dt))
        t += rng.choice([0, 1 * MS, 200 * MS, 2 * S, 8 * S])
    if faults and rng.chance(1, 3):
        # about half of the node's sends fail while the first search runs its rounds (partial failure inside one round)
        sc.add("sendfail %s %d %d %d" % (naddr.script(), searches[0]["t"], searches[0]["t"] + rng.choice([100 * MS, 2 * S, 4 * S]),
                                         rng.choice([500, 300, 700])))
    if hostile:
        other = addr_in_family(rng, v6, 9000)
        base = searches[0]["t"]
        # every kind of forgery at least once while the first search is live (its rounds run for about 3 s), then some more
        kinds = ["dup", "old", "othersrc", "wrongmid", "wrongaid", "shorttid", "longtid"]
        rng.shuffle(kinds)
        for kind in kinds:
            sc.add("at %d forge %s %s %s" % (base + 100 * MS + rng.below(2500 * MS), kind, naddr.script(), other.script()))
        for _ in range(rng.range(0, 6)):
            kind = rng.choice(kinds)
            sc.add("at %d forge %s %s %s" % (base + rng.below(6 * S), kind, naddr.script(), other.script()))
        # forgeries derived from the most recent answer: repeated at several instants of the first rounds, so that some are
        # derived from an answer to the search itself (and not to a bootstrap / refresh query)
        for s_ in searches[:2]:
            for off in (60 * MS, 150 * MS, 400 * MS, 900 * MS, 1300 * MS):
                for kind in ("longtid", "dup", "wrongmid"):
                    sc.add("at %d forge %s %s %s" % (s_["t"] + off + rng.below(40 * MS), kind, naddr.script(), other.script()))
        for _ in range(rng.range(0, 4)):
            # a fabricated response carrying peers and a token, with a random transaction id
            sc.add("at %d injectmsg %s %s t=%s r id=%040x values=%s nodes= nodes6= token=%s" % (
                base + rng.below(6 * S), other.script(), naddr.script(), rng.bytes(8).hex(), comp.rand_id(rng),
                comp.rand_addr(rng, v6).script(), "6666"))
    tend = t + 100 * S
    sc.add("at %d contacts n" % (tend - 1 * S))
    sc.add("at %d state n" % (tend - 1 * S))
    sc.add("end %d" % tend)
    meta = {"v6": v6, "own": own, "target": target, "world": world, "modes": modes, "searches": searches,
            "holders": holders, "naddr": naddr, "aport": aport, "ro": ro, "faults": faults, "hostile": hostile,
            "lat_hi": lat_hi, "early": early}
    return sc, meta


def rng_sample(rng, l, k):
    l = list(l)
    rng.shuffle(l)
    return l[:k]


def gen_early(rng, consts):
    """C16: the same search issued before bootstrap has finished and again well after it."""
    sc, meta = gen_lookup(rng, consts, hostile=False, faults=False, early=True, sizes=[2, 5, 8, 9, 20])
    # rebuild the timeline: searches at varying early instants, twins late; no announce (a search must not change the world)
    lines = [l for l in sc.lines if not (l.startswith("at ") or l.startswith("end "))]
    sc.lines = lines
    sc.add("at 0 boot n b0")
    ih = meta["target"]
    early_times = sorted(set([0, rng.choice([0, 1 * MS, 10 * MS, 40 * MS, 90 * MS]), rng.below(200 * MS)]))
    tags = []
    for k, t in enumerate(early_times):
        sc.add("at %d search n %040x 0 e%d" % (t, ih, k))
        tags.append("e%d" % k)
    sc.add("at %d search n %040x 0 late" % (30 * S, ih))
    sc.add("end %d" % (70 * S))
    meta["early_tags"] = tags
    meta["first_attempt_fails"] = False
    if rng.chance(1, 4):
        # nobody answers during the first seconds: the first bootstrap attempt concludes as failed (IdleBeforeRebootstrap), a
        # later one succeeds; the early searches are released at that first conclusion (and may then find nothing) -- they must
        # still END
        for _, a in meta["world"]:
            sc.lines.insert(3, "outage %s %d %d" % (a.script(), 0, 3500 * MS))
        meta["first_attempt_fails"] = True
    return sc, meta


def gen_refresh_longrun(rng, consts, minutes):
    """C18 / C11: a node in the few-contacts regime (periodic re-bootstrap every ~5 s) or alone, for a long time."""
    sc = simlib.Scenario()
    v6 = rng.chance(1, 5)
    own = comp.rand_id(rng)
    naddr = addr_in_family(rng, v6, 1)
    sc.add("seed %d" % rng.below(1 << 30))
    sc.add("latency %d %d" % (1 * MS, rng.choice([5 * MS, 50 * MS, 150 * MS])))
    n = rng.choice([0, 1, 2, 3, 5, 8])
    world = []
    for i in range(n):
        a = addr_in_family(rng, v6, 100 + i)
        idv = comp.rand_id(rng)
        sc.add_resp("r%d" % i, a, idv, "normal")
        world.append((idv, a))
    if world:
        sc.add("world " + " ".join("%040x@%s" % (i, a.script()) for i, a in world))
    sc.add_node("n", naddr, own, ro=rng.chance(1, 2), aport=None, nodes=[a for _, a in world[:rng.range(1, 3)]] if world else [])
    # outages make the node lose and regain its bootstrapped state
    t = 0
    for _ in range(rng.range(0, 3)):
        t0 = t + rng.range(5, 120) * S
        t1 = t0 + rng.range(3, 90) * S
        for _, a in world:
            sc.add("outage %s %d %d" % (a.script(), t0, t1))
        t = t1
    end = minutes * MIN
    for k in range(1, 6):
        sc.add("at %d state n" % (end * k // 6))
    if rng.chance(1, 2) and world:
        sc.add("at %d search n %040x 1 s0" % (end // 2, comp.rand_id(rng)))
    if rng.chance(1, 2) and world:
        # searches in flight while the node keeps re-bootstrapping (their timeouts interleave with bootstrap completions)
        t = rng.range(20, 60) * S
        k = 1
        while t < min(end, 5 * MIN) and k < 40:
            sc.add("at %d search n %040x %d s%d" % (t, comp.rand_id(rng), rng.below(2), k))
            t += rng.choice([700 * MS, 2 * S, 3100 * MS, 5 * S])
            k += 1
    if rng.chance(1, 2):
        # API callers polling bootstrapped() on a node that is (mostly) bootstrapped already
        t = rng.range(30, 90) * S
        for k in range(rng.range(5, 40)):
            sc.add("at %d boot n p%d" % (t, k))
            t += rng.choice([300 * MS, 1 * S, 2500 * MS])
    sc.add("end %d" % end)
    return sc, {"own": own, "world": world, "naddr": naddr, "minutes": minutes}


def gen_bootstrap(rng, consts):
    """C15: builder configurations x responder personalities x outages x concurrent bootstrapped() callers."""
    sc = simlib.Scenario()
    v6 = rng.chance(1, 5)
    own = comp.rand_id(rng)
    naddr = addr_in_family(rng, v6, 1)
    sc.add("seed %d" % rng.below(1 << 30))
    if rng.chance(1, 4):
        # duplicated datagrams arriving back to back (same virtual instant): answers of bootstrap exchanges come twice
        lat = rng.choice([1 * MS, 20 * MS])
        sc.add("latency %d %d" % (lat, lat))
        sc.add("dup %d" % rng.choice([300, 1000]))
    else:
        sc.add("latency %d %d" % (1 * MS, rng.choice([5 * MS, 40 * MS, 200 * MS])))
    kind = rng.choice(["none", "plain", "plain", "plain", "overlap", "routers_only", "many", "dead"])
    n = {"none": 0, "plain": rng.range(1, 6), "overlap": rng.range(1, 4), "routers_only": rng.range(1, 3),
         "many": rng.range(12, 40), "dead": rng.range(1, 4)}[kind]
    world = []
    resp = []
    for i in range(n):
        a = addr_in_family(rng, v6, 100 + i)
        idv = comp.rand_id(rng)
        if kind == "dead":
            mode = rng.choice(["silent", "error", "garbage"])
        else:
            mode = "normal" if i == 0 or rng.chance(2, 3) else rng.choice(["silent", "error", "garbage"])
        sc.add_resp("r%d" % i, a, idv, mode)
        world.append((idv, a))
        resp.append((a, mode))
    if world and rng.chance(1, 3):
        # the same address named under a second id (an id change / a liar): both become table entries
        for _ in range(rng.range(1, 2)):
            world.append((comp.rand_id(rng), world[rng.below(len(world))][1]))
    if world:
        sc.add("world " + " ".join("%040x@%s" % (i, a.script()) for i, a in world))
    addrs = [a for a, _ in resp]
    nodes, routers = [], []
    if kind in ("plain", "many", "dead"):
        nodes = addrs
    elif kind == "overlap":
        nodes = addrs
        routers = addrs[:rng.range(1, len(addrs))]
    elif kind == "routers_only":
        routers = addrs
    sc.add_node("n", naddr, own, ro=rng.chance(1, 2), aport=None, nodes=nodes, routers=routers)
    # outage: every contact unreachable from 0 to tau (possibly flapping)
    tau = 0
    if kind in ("plain", "many") and rng.chance(2, 3):
        tau = rng.choice([3, 30, 200, 700, 2000, 7200]) * S
        if rng.chance(1, 3):
            # flapping: short windows of reachability too brief to complete (< 100 ms)
            t = 0
            while t < tau:
                up = t + rng.range(5, 120) * S
                for a in addrs:
                    sc.add("outage %s %d %d" % (a.script(), t, min(up, tau)))
                t = up + rng.choice([10 * MS, 50 * MS])
        else:
            for a in addrs:
                sc.add("outage %s %d %d" % (a.script(), 0, tau))
    end = tau + 14 * MIN
    ncall = rng.range(0, 5)
    calls = sorted(rng.below(max(1, tau + 2 * S)) for _ in range(ncall))
    for k, t in enumerate(calls):
        sc.add("at %d boot n w%d" % (t, k))
    # a late caller: 12 min after a contact became responsive, 2 min before the end (it may have to wait for a periodic
    # re-bootstrap round in progress, which takes seconds)
    sc.add("at %d boot n wlate" % (end - 2 * MIN))
    for t in (1 * S, end // 2, end - 1 * S):
        sc.add("at %d state n" % t)
        sc.add("at %d localaddr n" % t)
    sc.add("at %d contacts n" % (end - 1 * S))
    sc.add("at %d contacts n" % (tau + 30 * S))
    sc.add("at %d contacts n" % (end // 2))
    sc.add("end %d" % end)
    meta = {"kind": kind, "tau": tau, "ncontacts": n, "modes": [m for _, m in resp], "end": end,
            "has_normal": any(m == "normal" for _, m in resp), "routers": bool(routers)}
    return sc, meta


def gen_network(rng, consts, band="ok", horizon="day", n=None):
    """C01: 2..9 real serving nodes that all know each other; announcers and searchers at offsets of seconds .. > 24 h.
    band: 'ok' (one-way latency < 0.75 s) or 'slow' (one-way latency in [0.75 s, 1 s): known finding F-C01)."""
    sc = simlib.Scenario()
    v6 = rng.chance(1, 3)
    n = n or rng.range(2, 9)
    sc.add("seed %d" % rng.below(1 << 30))
    sc.add("terse")
    if band == "ok":
        lo, hi = rng.choice([(1 * MS, 1 * MS), (1 * MS, 100 * MS), (20 * MS, 400 * MS), (300 * MS, 740 * MS), (700 * MS, 749 * MS)])
    else:
        lo, hi = rng.choice([(750 * MS, 760 * MS), (800 * MS, 900 * MS), (750 * MS, 999 * MS)])
    sc.add("latency %d %d" % (lo, hi))
    nodes = []
    for i in range(n):
        a = addr_in_family(rng, v6, 1 + i)
        idv = comp.rand_id(rng)
        aport = rng.choice([None, None, rng.range(1, 65535)])
        nodes.append({"name": "n%d" % i, "addr": a, "id": idv, "aport": aport})
    for nd in nodes:
        sc.add_node(nd["name"], nd["addr"], nd["id"], ro=False, aport=nd["aport"],
                    nodes=[o["addr"] for o in nodes if o is not nd], start=rng.choice([0, 0, rng.below(3 * S)]), traced=False)
    hashes = [comp.rand_id(rng) for _ in range(rng.range(1, 2))]
    # some info-hashes close to a node id (the announcer's own neighbourhood differs from the searcher's)
    if rng.chance(1, 3):
        hashes[0] = nodes[rng.below(n)]["id"] ^ rng.below(1 << rng.range(1, 150))
    tag = [0]
    events = []

    def search(t, node, ih, ann):
        tag[0] += 1
        sc.add("at %d search %s %040x %d s%d" % (t, node["name"], ih, 1 if ann else 0, tag[0]))
        events.append({"tag": "s%d" % tag[0], "t": t, "node": node["name"], "ih": ih, "ann": ann})

    t_first = rng.range(10 * S, 40 * S)
    announces = []
    for ih in hashes:
        for k in range(rng.choice([1, 1, 2, 3])):
            a = nodes[rng.below(n)]
            t = t_first + rng.below(20 * S)
            search(t, a, ih, True)
            announces.append((t, a, ih))
    # a re-announce (keeps the contact alive for another 24 h)
    reann = None
    if horizon == "day" and rng.chance(1, 3):
        t0, a, ih = announces[0]
        reann = t0 + rng.range(1 * HOUR, 20 * HOUR)
        search(reann, a, ih, True)
    t_after = t_first + 20 * S + 60 * S       # every announcing search has ended by then (checked, not assumed)
    offsets = [0, rng.below(10 * S), rng.range(10 * S, 10 * MIN), rng.range(10 * MIN, 2 * HOUR)]
    if horizon == "day":
        # relative to t_after = t_first + 80 s: the last searches that must still find the contact end just before
        # (first announce) + 24 h, the first ones that must not find it start just after (last announce ended) + 24 h
        offsets += [rng.range(2 * HOUR, 23 * HOUR), DAY - 100 * S - rng.below(10 * MIN), DAY - 90 * S,
                    DAY - 50 * S, DAY - 50 * S + rng.below(2 * HOUR)]
        if reann is not None:
            offsets += [reann - t_first + DAY - 90 * S, reann - t_first + DAY - 50 * S]
    for off in offsets:
        for ih in hashes:
            for _ in range(rng.choice([1, 1, 2])):
                search(t_after + off, nodes[rng.below(n)], ih, False)
    end = max(e["t"] for e in events) + 60 * S
    sc.add("end %d" % end)
    meta = {"v6": v6, "n": n, "band": band, "lat": (lo, hi), "events": events,
            "nodes": {nd["name"]: {"addr": nd["addr"].script(), "aport": nd["aport"]} for nd in nodes}}
    return sc, meta


def gen_keepfresh(rng, consts, minutes):
    """C11: one real node, 1..8 scripted contacts partitioned into always-answering / silent-from-t; contacts sampled every
    5 virtual seconds, find_node probes every minute; optional searches; single-contact and connected regimes."""
    sc = simlib.Scenario()
    v6 = rng.chance(1, 4)
    own = comp.rand_id(rng)
    naddr = addr_in_family(rng, v6, 1)
    sc.add("seed %d" % rng.below(1 << 30))
    lat_hi = rng.choice([2 * MS, 20 * MS, 100 * MS, 200 * MS])
    sc.add("latency %d %d" % (1 * MS, lat_hi))
    k = rng.choice([1, 1, 2, 3, 4, 6, 8])
    end = minutes * MIN
    contacts = []
    n_silent = rng.below(k) if k > 1 else rng.choice([0, 0, 1])
    # "mass silence": the only configured contact and 3..5 others stop answering at the same instant while good; from then
    # on re-bootstrap attempts fail and only the 6 s refresh keeps the remaining (responsive) contacts fresh
    mass = rng.chance(1, 3)
    mass_t = rng.range(1 * MIN, max(2 * MIN, end - 40 * MIN))
    if mass:
        k = rng.choice([6, 7, 8])
        n_silent = rng.range(4, k - 1)
    for i in range(k):
        a = addr_in_family(rng, v6, 100 + i)
        idv = comp.rand_id(rng) if rng.chance(3, 4) else own ^ (1 << rng.below(159))
        c = {"name": "r%d" % i, "addr": a, "id": idv, "silent_from": None, "named_until": None, "in_world": True}
        if i >= k - n_silent and mass:
            c["silent_from"] = mass_t
            c["named_until"] = mass_t
        elif i >= k - n_silent:
            c["silent_from"] = rng.choice([0, rng.below(30 * S), rng.range(30 * S, 14 * MIN), rng.range(14 * MIN, 17 * MIN),
                                           rng.range(17 * MIN, max(18 * MIN, end - 30 * MIN))])
            style = rng.choice(["unnamed", "named_until", "named_until"])
            if style == "unnamed":
                c["in_world"] = False
            else:
                c["named_until"] = rng.choice([c["silent_from"], rng.below(max(1, end - 10 * MIN)), c["silent_from"] + rng.below(20 * MIN)])
        contacts.append(c)
        sc.add_resp(c["name"], a, idv, "normal")
        if c["silent_from"] is not None:
            sc.add("outage %s %d %d" % (a.script(), c["silent_from"], 1 << 62))
    world = [(c["id"], c["addr"]) for c in contacts if c["in_world"]]
    if world:
        sc.add("world " + " ".join("%040x@%s" % (i, a.script()) for i, a in world))
    # configured contacts: everybody nobody would name otherwise, plus at least one other
    conf = [c["addr"] for c in contacts if not c["in_world"]]
    rest = [c["addr"] for c in contacts if c["in_world"]]
    conf += rest[:rng.range(1, max(1, len(rest)))]
    if mass:
        conf = [contacts[-1]["addr"]]          # a single configured contact, one of those that go silent
    sc.add_node("n", naddr, own, ro=rng.chance(1, 2), aport=None, nodes=conf)
    for c in contacts:
        if c["named_until"] is not None:
            sc.add("at %d unworld %s" % (c["named_until"], c["addr"].script()))
    t = 5 * S
    while t < end:
        sc.add("at %d contacts n" % t)
        t += 5 * S
    probe_src = addr_in_family(rng, v6, 5000)
    pid = comp.rand_id(rng)
    j = 0
    t = 30 * S
    while t < end:
        target = rng.choice([own, contacts[rng.below(k)]["id"], comp.rand_id(rng)])
        sc.add("at %d injectmsg %s %s t=70%06x q=find_node id=%040x target=%040x want=-" % (
            t + 1, probe_src.script(), naddr.script(), j, pid, target))
        j += 1
        t += 60 * S
    if rng.chance(1, 2):
        for _ in range(rng.range(1, 4)):
            sc.add("at %d search n %040x %d s%d" % (rng.below(end), comp.rand_id(rng), rng.below(2), rng.below(1000)))
    sc.add("end %d" % end)
    meta = {"own": own, "naddr": naddr.script(), "lat_hi": lat_hi, "minutes": minutes, "probe_src": probe_src.script(),
            "contacts": [{"name": c["name"], "addr": c["addr"].script(), "id": "%040x" % c["id"], "silent_from": c["silent_from"],
                          "named_until": c["named_until"], "in_world": c["in_world"]} for c in contacts]}
    return sc, meta


def gen_bigtable_server(rng, consts):
    """C09 handler part: a serving node whose table holds 9..40 live contacts in several buckets; find_node and get_peers
    probes for the same key back to back (the two replies must list the same nodes), all `want` variants."""
    sc = simlib.Scenario()
    v6 = rng.chance(1, 4)
    own = comp.rand_id(rng)
    naddr = addr_in_family(rng, v6, 1)
    sc.add("seed %d" % rng.below(1 << 30))
    sc.add("latency %d %d" % (1 * MS, 20 * MS))
    n = rng.range(9, 40)
    world = []
    for i in range(n):
        a = addr_in_family(rng, v6, 100 + i)
        r = rng.below(4)
        if r == 0:
            idv = own ^ (1 << (159 - rng.below(12))) ^ rng.below(1 << 100)      # shares 0..11 leading bits with the node
        else:
            idv = comp.rand_id(rng)
        sc.add_resp("r%d" % i, a, idv, "normal" if rng.chance(5, 6) else "silent")
        world.append((idv, a))
    sc.add("world " + " ".join("%040x@%s" % (i, a.script()) for i, a in world))
    sc.add_node("n", naddr, own, ro=False, aport=None, nodes=[a for _, a in world[:3]])
    src = addr_in_family(rng, v6, 5000)
    sid = comp.rand_id(rng)
    t = 20 * S
    pairs = []
    for j in range(rng.range(8, 20)):
        t += rng.choice([1 * S, 5 * S, 30 * S])
        r = rng.below(5)
        key = own if r == 0 else (world[rng.below(n)][0] if r == 1 else (own ^ (1 << rng.below(160)) if r == 2 else comp.rand_id(rng)))
        w = want_txt(rng)
        sc.add("at %d injectmsg %s %s t=f1%04x q=find_node id=%040x target=%040x want=%s" % (t, src.script(), naddr.script(), j, sid, key, w))
        sc.add("at %d injectmsg %s %s t=f2%04x q=get_peers id=%040x ih=%040x want=%s" % (t + 1, src.script(), naddr.script(), j, sid, key, w))
        pairs.append(j)
    sc.add("at %d contacts n" % (t + 1 * S))
    sc.add("end %d" % (t + 3 * S))
    return sc, {"own": own, "naddr": naddr.script(), "src": src.script(), "pairs": pairs, "n": n}


def gen_stillborn(rng, consts):
    """C12: a search on a node that knows no good node ends at once without sending anything; afterwards a stranger sprays
    responses carrying every action prefix of the first id block (the still-born search's among them)."""
    sc = simlib.Scenario()
    v6 = rng.chance(1, 4)
    own = comp.rand_id(rng)
    naddr = addr_in_family(rng, v6, 1)
    sc.add("seed %d" % rng.below(1 << 30))
    sc.add("latency %d %d" % (1 * MS, 5 * MS))
    n = rng.choice([0, 0, 1, 2])
    dead = []
    for i in range(n):
        a = addr_in_family(rng, v6, 100 + i)
        sc.add_resp("r%d" % i, a, comp.rand_id(rng), "silent")
        dead.append(a)
    sc.add_node("n", naddr, own, ro=rng.chance(1, 2), aport=None, nodes=dead)
    t = rng.choice([0, 10 * MS, 6 * S])
    for k in range(rng.range(1, 3)):
        sc.add("at %d search n %040x %d s%d" % (t, comp.rand_id(rng), rng.below(2), k))
        t += rng.choice([1 * MS, 1 * S])
    t += 5 * S
    src = addr_in_family(rng, v6, 7000)
    sid = comp.rand_id(rng)
    named = "%040x@%s" % (comp.rand_id(rng), addr_in_family(rng, v6, 7001).script())
    block = consts.get("txn_action_id_prealloc_len", 2048)
    for aid in range(block):
        t += 1 * MS
        sc.add("at %d injectmsg %s %s t=%010x%06x r id=%040x values= nodes=%s nodes6=%s token=-" % (
            t, src.script(), naddr.script(), aid, rng.below(4), sid, "" if v6 else named, named if v6 else ""))
    sc.add("at %d contacts n" % (t + 1 * S))
    sc.add("at %d state n" % (t + 1 * S))
    sc.add("end %d" % (t + 3 * S))
    return sc, {"own": own, "naddr": naddr, "v6": v6}
