"""Helpers shared by the component-run properties (scripts for the harness, Coq case terms)."""
import json
import os
import re

import vlib
from vlib import Broken


def read_consts():
    txt = open(os.path.join(vlib.COQ, "gen", "Consts.v")).read()
    out = {}
    for m in re.finditer(r"Definition (\w+) : Z := (\d+)%Z", txt):
        out[m.group(1)] = int(m.group(2))
    return out


class Addr:
    __slots__ = ("v6", "ip", "port")

    def __init__(self, v6, ip, port):
        self.v6, self.ip, self.port = v6, ip, port

    def script(self):
        return "%s:%s:%d" % ("6" if self.v6 else "4", ("%032x" if self.v6 else "%08x") % self.ip, self.port)

    def coq(self):
        return "(ad %s %d %d)" % ("true" if self.v6 else "false", self.ip, self.port)

    def key(self):
        return (self.v6, self.ip, self.port)

    @staticmethod
    def parse(s):
        f, ip, port = s.split(":")
        return Addr(f == "6", int(ip, 16), int(port))


def rand_addr(rng, v6=None):
    if v6 is None:
        v6 = rng.chance(1, 3)
    if v6:
        ip = int.from_bytes(rng.bytes(16), "big")
    else:
        ip = int.from_bytes(rng.bytes(4), "big")
    return Addr(v6, ip, rng.range(1, 65535))


def rand_id(rng):
    return int.from_bytes(rng.bytes(20), "big")


def id_hex(x):
    return "%040x" % x


def run_script(sub, cases_lines, timeout=900):
    """cases_lines: list of list-of-lines (one list per case). Returns list of list-of-output-lines."""
    text = []
    for lines in cases_lines:
        text.append("RESET")
        text.extend(lines)
    code, out, err = vlib.harness([sub], "\n".join(text) + "\n", timeout=timeout)
    if code != 0:
        raise Broken("harness %s failed (%d): %s" % (sub, code, err[-800:]))
    res = []
    cur = None
    for line in out.split("\n"):
        if line == "RESET":
            cur = []
            res.append(cur)
        elif line.strip() != "" or cur is not None and False:
            if cur is None:
                raise Broken("harness %s: output before RESET" % sub)
            cur.append(line)
    if len(res) != len(cases_lines):
        raise Broken("harness %s: %d cases in, %d out" % (sub, len(cases_lines), len(res)))
    return res


def shard_eval(prefix, header, case_terms, per_case_evals, nshards=16, timeout=900):
    """case_terms: list of strings, each a sequence of Coq commands defining what the evals of
    that case refer to (using the suffix _<i>). per_case_evals: number of Eval blocks per case.
    Returns list (per case) of list of block strings."""
    n = len(case_terms)
    # memory: a coqc holding a 10 MB case file peaks near 5 GB, and 16 of them run at once -- keep every file below ~2.5 MB
    total_bytes = sum(len(t) for t in case_terms)
    nshards = max(nshards, total_bytes // 2500000 + 1)
    if n > 400:
        # large (thorough) batches: many small files keep every coqc well inside its time limit
        nshards = max(nshards, n // 12)
        timeout = max(timeout, 2400)
    nshards = max(1, min(nshards, n))
    per = (n + nshards - 1) // nshards
    files = []
    spans = []
    for s in range(nshards):
        part = case_terms[s * per:(s + 1) * per]
        if not part:
            continue
        text = header + "\nSet Printing Width 1000000. Set Printing Depth 1000000.\n" + "\n".join(part) + "\n"
        files.append((os.path.join(vlib.CACHE, "cases", "%s_%d.v" % (prefix, s)), text))
        spans.append(len(part))
    outs = vlib.coq_eval_files(files, timeout=timeout)
    res = []
    for (path, _), span, (code, out) in zip(files, spans, outs):
        if code != 0:
            raise Broken("coqc failed on %s: %s" % (path, out[-1200:]))
        blocks = vlib.parse_eval_blocks(out)
        if len(blocks) != span * per_case_evals:
            raise Broken("coqc output of %s: expected %d blocks, got %d: %s" % (path, span * per_case_evals, len(blocks), out[:600]))
        for i in range(span):
            res.append(blocks[i * per_case_evals:(i + 1) * per_case_evals])
    return res


def parse_opt_N(s):
    s = s.strip()
    if s == "None":
        return None
    m = re.match(r"^Some (\d+)(%N)?$", s)
    if not m:
        raise Broken("cannot parse option N: " + s[:100])
    return int(m.group(1))
