"""Node runs on the simulated network: scenario scripts, log parsing, Coq trace cases."""
import concurrent.futures
import os
import re

import comp
import vlib
from vlib import Broken

S = 10**9
MS = 10**6


class Scenario:
    def __init__(self):
        self.lines = []
        self.node = None   # dict describing the single traced real node (if any)

    def add(self, line):
        self.lines.append(line)

    def add_node(self, name, addr, idv, ro=False, aport=None, nodes=(), routers=(), start=0, traced=True, ro_default=False):
        """ro_default: do not call set_read_only at all (the builder's documented default is read-only; pass ro=True with it)"""
        self.lines.append("node %s %s id=%040x ro=%s aport=%s nodes=%s routers=%s start=%d" % (
            name, addr.script(), idv, "-" if ro_default else ("1" if ro else "0"), "-" if aport is None else str(aport),
            ",".join(a.script() for a in nodes) or "-", ",".join(a.script() for a in routers) or "-", start))
        if traced:
            self.node = {"name": name, "addr": addr, "id": idv, "ro": ro, "aport": aport,
                         "routers": list(routers), "nodes": list(nodes), "start": start}

    def add_resp(self, name, addr, idv, mode="normal", toklen=8):
        self.lines.append("resp %s %s id=%040x mode=%s toklen=%d" % (name, addr.script(), idv, mode, toklen))

    def text(self):
        return "\n".join(self.lines) + "\n"


def run_sim(text, timeout=300):
    code, out, err = vlib.harness(["sim"], text, timeout=timeout)
    if code != 0:
        raise Broken("harness sim failed (%d): %s" % (code, err[-800:]))
    log = []
    for line in out.split("\n"):
        if not line:
            continue
        t, _, rest = line.partition(" ")
        kind, _, body = rest.partition(" ")
        log.append((int(t), kind, body))
    return log


def run_sims(texts, jobs=16, timeout=300):
    with concurrent.futures.ThreadPoolExecutor(max_workers=jobs) as ex:
        return list(ex.map(lambda t: run_sim(t, timeout), texts))


def parse_sock(s):
    """`1.2.3.4:5` or `[v6]:port` as printed by Rust's Display of SocketAddr -> comp.Addr"""
    import ipaddress
    host, _, port = s.rpartition(":")
    host = host.strip("[]")
    ip = ipaddress.ip_address(host)
    return comp.Addr(ip.version == 6, int(ip), int(port))


def parse_handle_dbg(s):
    i, _, a = s.partition("@")
    return int(i, 16), parse_sock(a)


BOOT_CODES = {"AwaitStart": 0, "InitialContact": 1, "Bootstrapping": 2, "Bootstrapped": 3, "IdleBeforeRebootstrap": 4}


class Trace:
    """Handler events of the single traced node, in order, with their observed outputs."""

    def __init__(self, log, node):
        self.node = node
        self.events = []          # (time, kind, payload, outputs, task_dbg)
        self.aids = {}            # activity index -> aid
        self.mids = {}            # aid -> [mid,...]
        self.sendok = []          # per handler send
        self.lookup_aids = []
        self.t0 = node["start"]
        self.refresh_rounds = []  # times
        self.pending = []         # (time, pending timers) at timer events
        cur = None
        last_recv = {}
        boot_aid = None
        self.search_calls = []    # (ih, announce) in call order, for this node
        n_start_cmds = 0
        for (t, kind, body) in log:
            if kind == "SEARCH_CALL":
                p = body.split()
                if p[1] == node["name"]:
                    self.search_calls.append((int(p[2], 16), p[3] == "1"))
                continue
            if kind == "AIDS":
                m = re.match(r"refresh=ActionID \{ action_id: (\d+) \} bootstrap=ActionID \{ action_id: (\d+) \}", body)
                self.aids[0] = int(m.group(1))
                self.aids[1] = int(m.group(2))
                boot_aid = self.aids[1]
            elif kind == "GEN":
                v = int(body, 16)
                self.mids.setdefault(v >> 24, []).append(v & 0xFFFFFF)
            elif kind == "RECV":
                a, h, _status = body.split()
                last_recv[a] = h
            elif kind in ("EV_TIMER", "EV_CMD", "EV_BOOT", "EV_MSG", "EV_SHUTDOWN"):
                if cur is not None and kind == "EV_SHUTDOWN":
                    continue
                cur = {"t": t, "kind": kind, "body": body, "out": [], "lookup": None, "tops": []}
                if kind == "EV_CMD" and body.strip() == "StartLookup":
                    if n_start_cmds < len(self.search_calls):
                        cur["call"] = self.search_calls[n_start_cmds]
                    n_start_cmds += 1
                if kind == "EV_MSG":
                    cur["hex"] = last_recv.get(body.strip())
                    cur["src"] = parse_sock(body.strip())
                if kind == "EV_TIMER":
                    m = re.search(r"pending=(\d+)", body)
                    self.pending.append((t, int(m.group(1))))
            elif kind == "EV_END":
                if cur is not None:
                    if cur.get("pending_end") is not None:
                        cur["out"].append(("end", cur.pop("pending_end")))
                    self.events.append(cur)
                cur = None
            elif cur is not None:
                if kind in ("T_ADDNODES", "T_LREQ", "T_RREQ"):
                    cur["tops"].append((kind, body))
                if kind == "SEND":
                    a, h = body.split()
                    cur["out"].append(("send", parse_sock(a), h))
                    self.sendok.append(True)
                elif kind == "SENDFAIL":
                    if self.sendok:
                        self.sendok[-1] = False
                elif kind == "YIELD":
                    m = re.match(r"ActionID \{ action_id: (\d+) \} (\S+)", body)
                    cur["out"].append(("yield", int(m.group(1)), parse_sock(m.group(2))))
                elif kind == "FINISHED":
                    # logged when recv_finished starts; the stream really ends after the announces
                    m = re.match(r"ActionID \{ action_id: (\d+) \}", body)
                    if cur.get("pending_end") is not None:
                        cur["out"].append(("end", cur.pop("pending_end")))
                    cur["pending_end"] = int(m.group(1))
                    cur.setdefault("finished_all", []).append(int(m.group(1)))
                    cur["finished"] = int(m.group(1))
                elif kind == "REFRESH_ROUND":
                    cur["out"].append(("round", int(body.split("=")[1])))
                    self.refresh_rounds.append(t)
                elif kind == "LOOKUP_START":
                    if cur.get("pending_end") is not None:
                        cur["out"].append(("end", cur.pop("pending_end")))
                    m = re.match(r"ActionID \{ action_id: (\d+) \} target=([0-9a-f]{40}) announce=(true|false)", body)
                    cur["lookup"] = (int(m.group(1)), int(m.group(2), 16), m.group(3) == "true")
                    self.lookup_aids.append(int(m.group(1)))
            else:
                # outside handler events: the bootstrap task
                if kind == "T_ADDNODES":
                    m = re.match(r"(\S+) \[(.*)\]", body)
                    h = parse_handle_dbg(m.group(1))
                    named = [parse_handle_dbg(x) for x in m.group(2).split(",")] if m.group(2) else []
                    self.events.append({"t": t, "kind": "BOOT_TABLE", "handle": h, "named": named, "out": []})
                elif kind == "T_LREQ":
                    self.events.append({"t": t, "kind": "BOOT_LREQ", "handle": parse_handle_dbg(body.strip()), "out": []})
                elif kind == "BOOT_STATE" and node["routers"]:
                    if "-> InitialContact" in body or "-> IdleBeforeRebootstrap" in body:
                        self.events.append({"t": t, "kind": "SET_ROUTERS", "out": []})
                elif kind == "REFRESH_ROUND":
                    self.refresh_rounds.append(t)
        for k, a in enumerate(self.lookup_aids):
            self.aids[2 + k] = a

    # ---- Coq terms ----
    def coq_addr(self, a):
        return "(ad %s %d %d)" % ("true" if a.v6 else "false", a.ip, a.port)

    def coq_event(self, e):
        k = e["kind"]
        if k == "EV_MSG":
            if e.get("hex") is None:
                raise Broken("EV_MSG without a preceding RECV")
            ev = 'RMsg %s "%s"' % (self.coq_addr(e["src"]), e["hex"])
        elif k == "EV_TIMER":
            ev = "RTimer"
        elif k == "EV_CMD":
            name = e["body"].strip()
            if name == "StartLookup":
                if e.get("call") is None:
                    raise Broken("StartLookup command without a SEARCH_CALL")
                ev = "RStartLookup %d %s" % (e["call"][0], "true" if e["call"][1] else "false")
            elif name == "CheckBootstrap":
                ev = "RCheckBootstrap"
            else:
                ev = "ROtherCmd"
        elif k == "EV_BOOT":
            ev = "RBootState %d" % BOOT_CODES[e["body"].strip()]
        elif k == "EV_SHUTDOWN":
            ev = "RShutdown"
        elif k == "BOOT_TABLE":
            ev = "RBootTable %d %s [%s]" % (e["handle"][0], self.coq_addr(e["handle"][1]),
                                            "; ".join("(%d%%N, %s)" % (i, self.coq_addr(a)) for i, a in e["named"]))
        elif k == "BOOT_LREQ":
            ev = "RBootLocalReq %d %s" % (e["handle"][0], self.coq_addr(e["handle"][1]))
        elif k == "SET_ROUTERS":
            ev = "RSetRouters [%s]" % "; ".join(self.coq_addr(a) for a in self.node["routers"])
        else:
            raise Broken("unknown event kind " + k)
        outs = []
        for o in e["out"]:
            if o[0] == "send":
                outs.append('XSend %s "%s"' % (self.coq_addr(o[1]), o[2]))
            elif o[0] == "yield":
                outs.append("XYield %d %s" % (o[1], self.coq_addr(o[2])))
            elif o[0] == "end":
                outs.append("XEnd %d" % o[1])
            elif o[0] == "round":
                outs.append("XRound %d" % o[1])
        return "(%d%%Z, %s, [%s])" % (e["t"], ev, "; ".join(outs))

    def coq_case(self, name):
        nact = (max(self.aids) + 1) if self.aids else 0
        aids = [self.aids.get(k, (1 << 40) + 1 + k) for k in range(nact)]
        mids = [self.mids.get(a, []) for a in aids]
        n = self.node
        cfg = "(mkCfg %d %s %s %s)" % (n["id"], "true" if n["addr"].v6 else "false", "true" if n["ro"] else "false",
                                      "None" if n["aport"] is None else "(Some %d%%N)" % n["aport"])
        evs = ";\n  ".join(self.coq_event(e) for e in self.events)
        return ("Definition %s_evs : list (Z * rev_ * list xout) := [\n  %s\n]%%string.\n"
                "Definition %s_bad := run_case [%s]%%N [%s] [%s] %s %d%%Z %s_evs.\n" % (
                    name, evs, name, "; ".join(str(a) for a in aids),
                    "; ".join("[" + "; ".join(str(m) for m in ms) + "]%N" for ms in mids),
                    "; ".join("true" if b else "false" for b in self.sendok), cfg, self.t0, name))


TRACE_HEADER = ("From BT Require Import model.Prelude model.Compact model.Krpc model.Token model.Storage model.Table "
                "model.Txn model.Handler run.Run_Handler.\nOpen Scope Z_scope.\n")


def validate_traces(tag, traces, nshards=16, extra=None):
    """Replay each trace through the model in Coq. Returns list of lists of differing event indices."""
    terms = []
    for i, tr in enumerate(traces):
        s = tr.coq_case("c%d" % i) + "Eval vm_compute in c%d_bad.\n" % i
        if extra:
            s += extra(i, tr)
        terms.append(s)
    nev = 1 + (extra.count if extra else 0)
    blocks = comp.shard_eval(tag, TRACE_HEADER, terms, nev, nshards=nshards, timeout=1500)
    return blocks


# ---------------------------------------------------------------------------------------------------------------
# socket demultiplexer replay (model/Socket.v): registrations / removals / received datagrams of the traced node
SOCK_HEADER = ("From BT Require Import model.Prelude model.Compact model.Krpc model.Socket run.Run_Socket.\nOpen Scope Z_scope.\n")


def socket_events(log):
    """[(kind, ...)] in log order: ('reg', Addr, tidhex) | ('unreg', Addr, tidhex) | ('recv', Addr, hex, code) with code
    0 = undecodable (dropped), 1 = handed to a pending exchange, 2 = handed to the handler, 7 = not observed (end of run)."""
    evs = []
    open_recv = None
    for (t, kind, body) in log:
        if kind in ("REG", "UNREG"):
            a, _, tid = body.partition(" ")
            evs.append([kind.lower(), parse_sock(a), tid.strip()])
        elif kind == "RECV":
            a, h, status = body.split()
            if status == "undecodable":
                evs.append(["recv", parse_sock(a), h, 0])
            else:
                evs.append(["recv", parse_sock(a), h, 7])
                open_recv = len(evs) - 1
        elif kind == "TO_BOOTSTRAP" and open_recv is not None:
            evs[open_recv][3] = 1
            open_recv = None
        elif kind == "EV_MSG" and open_recv is not None:
            evs[open_recv][3] = 2
            open_recv = None
    return evs


def socket_case(name, evs):
    def ad(a):
        return "(ad %s %d %d)" % ("true" if a.v6 else "false", a.ip, a.port)
    items = []
    for e in evs:
        if e[0] == "reg":
            items.append('XReg %s "%s"' % (ad(e[1]), e[2]))
        elif e[0] == "unreg":
            items.append('XUnreg %s "%s"' % (ad(e[1]), e[2]))
        else:
            items.append('XRecv %s "%s" %d' % (ad(e[1]), e[2], e[3]))
    return "Definition %s : list xsev := [\n  %s\n]%%string.\nEval vm_compute in sock_case %s.\n" % (name, ";\n  ".join(items), name)


def validate_socket(tag, logs, nshards=16):
    """Returns, per log, the list of event indices at which the model routes a datagram differently from the real socket
    (or at which a registration would have panicked)."""
    all_evs = [socket_events(l) for l in logs]
    terms = [socket_case("s%d" % i, evs) for i, evs in enumerate(all_evs)]
    blocks = comp.shard_eval(tag, SOCK_HEADER, terms, 1, nshards=nshards, timeout=1500)
    return all_evs, [vlib.parse_N_list(b[0]) for b in blocks]
