"""Checkers of the search properties (C02, C03, C04) on the log of a real node."""
import re

from nodeprop import parse_rendered, render_map, split_list
from simlib import S, MS

TIMEOUT = 1500 * MS


class SearchView:
    """Everything the log says about one search (identified by its action id)."""

    def __init__(self, aid):
        self.aid = aid
        self.target = None
        self.announce = None
        self.start = None
        self.queries = []        # (t, tid, dst)
        self.announces = []      # (t, dst, rendered dict)
        self.yields = []         # (t, addr)
        self.accepted = []       # (t, src, tid, rendered dict) responses handled while tid outstanding
        self.finished = None
        self.named = set()


def analyse(log, tr):
    """Reconstruct per-search views and audit the C03 clauses on the way. Returns (views, violations)."""
    rm = render_map(log)
    views = {}
    viol = []
    active = {}      # aid -> {tid: t_sent}
    aid_of_tid = lambda tid: int(tid[:10], 16) if len(tid) == 16 else None
    for e in tr.events:
        t = e["t"]
        if e.get("lookup"):
            pass
        sends = [o for o in e["out"] if o[0] == "send"]
        yields = [o for o in e["out"] if o[0] == "yield"]
        # searches started in this event (possibly several: released queue)
        req = parse_rendered(rm.get(e.get("hex"))) if e["kind"] == "EV_MSG" else None
        accepted_here = None
        if req is not None and req["y"] == "r":
            aid = aid_of_tid(req["t"])
            if aid in active and req["t"] in active[aid]:
                accepted_here = (aid, req)
        for o in yields:
            aid, addr = o[1], o[2]
            ok = accepted_here is not None and accepted_here[0] == aid and addr.script() in split_list(accepted_here[1].get("values"))
            if not ok:
                viol.append({"kind": "search yielded an address that was not in the values of a response to an outstanding query of that search",
                             "time": t, "address": addr.script(), "event": rm.get(e.get("hex"), e["kind"])})
            views.setdefault(aid, SearchView(aid)).yields.append((t, addr.script()))
        if accepted_here is not None:
            aid, r = accepted_here
            v = views.setdefault(aid, SearchView(aid))
            v.accepted.append((t, e["src"].script(), r["t"], r))
            del active[aid][r["t"]]
            for nd in split_list(r.get("nodes")) + split_list(r.get("nodes6")):
                v.named.add(nd.split("@")[0])
        if e["kind"] == "EV_TIMER":
            m = re.search(r"LookupTimeout\(TransactionID \{ bytes: \[([0-9, ]+)\] \}\)", e["body"])
            if m:
                tid = bytes(int(x) for x in m.group(1).split(",")).hex()
                aid = aid_of_tid(tid)
                if aid in active:
                    active[aid].pop(tid, None)
        for s in sends:
            d = parse_rendered(rm.get(s[2]))
            if d is None or d["y"] != "q":
                continue
            aid = aid_of_tid(d["t"])
            if d["q"] == "get_peers":
                v = views.setdefault(aid, SearchView(aid))
                v.queries.append((t, d["t"], s[1].script()))
                v.target = d["ih"]
                if v.start is None:
                    v.start = t
                active.setdefault(aid, {})[d["t"]] = t
            elif d["q"] == "announce_peer":
                views.setdefault(aid, SearchView(aid)).announces.append((t, s[1].script(), d))
        for aid in e.get("finished_all", []):
            v = views.setdefault(aid, SearchView(aid))
            v.finished = t
            active.pop(aid, None)
    # announce audit
    starts = {}
    for e in tr.events:
        if e.get("lookup"):
            starts[e["lookup"][0]] = e["lookup"]
    for (t, kind, body) in log:
        if kind == "LOOKUP_START":
            m = re.match(r"ActionID \{ action_id: (\d+) \} target=([0-9a-f]{40}) announce=(true|false)", body)
            v = views.setdefault(int(m.group(1)), SearchView(int(m.group(1))))
            v.target = m.group(2)
            v.announce = m.group(3) == "true"
            if v.start is None:
                v.start = t
    for aid, v in views.items():
        if v.announces and v.announce is False:
            viol.append({"kind": "announce_peer sent although announcing was not requested", "search": aid})
        if len(v.announces) > 8:
            viol.append({"kind": "more than 8 announce_peer in one search", "search": aid, "count": len(v.announces)})
        for (t, dst, d) in v.announces:
            # latest token received from exactly this (id, address) within this search
            tok = None
            for (ta, src, tid, r) in v.accepted:
                if src == dst and r.get("token", "-") != "-":
                    tok = (r["token"], r["id"])
            if tok is None:
                viol.append({"kind": "announce_peer to a node that gave this search no token", "search": aid, "dst": dst})
            elif d["token"] != tok[0]:
                viol.append({"kind": "announce_peer carries a token other than the latest one from that node", "search": aid, "dst": dst})
            if d["ih"] != v.target:
                viol.append({"kind": "announce_peer for another info-hash", "search": aid})
    return views, viol
