"""Routing-table scripts shared by C08, C09, C10: generation, harness run, Coq terms."""
import json

import comp
import vlib
from vlib import Broken

S = 10**9
MIN15 = 900 * S


def handle_hex(idv, a):
    return "%040x%s%s%04x" % (idv, "06" if a.v6 else "04", ("%032x" if a.v6 else "%08x") % a.ip, a.port)


def handle_script(idv, a):
    return "%040x %s" % (idv, a.script())


def id_at_depth(rng, local, d):
    """An id sharing exactly d leading bits with local (d = 160 -> the local id itself)."""
    if d >= 160:
        return local
    bit = 1 << (159 - d)
    low_mask = bit - 1
    x = (local ^ bit) & ~low_mask & ((1 << 160) - 1)
    return x | (int.from_bytes(rng.bytes(20), "big") & low_mask)


class Case:
    def __init__(self, local):
        self.local = local
        self.ops = []      # tuples

    def script(self):
        lines = ["NEW %040x" % self.local]
        for o in self.ops:
            k = o[0]
            if k == "ROUTER":
                lines.append("ROUTER %s" % o[1].script())
            elif k == "OFFER":
                lines.append("OFFER %d %s %s" % (o[1], "G" if o[2] else "Q", handle_script(o[3], o[4])))
            elif k == "ADDNODES":
                named = ",".join("%040x@%s" % (i, a.script()) for i, a in o[4]) or "-"
                lines.append("ADDNODES %d %s %s" % (o[1], handle_script(o[2], o[3]), named))
            elif k in ("LREQ", "RREQ"):
                lines.append("%s %d %s" % (k, o[1], handle_script(o[2], o[3])))
            elif k == "DUMP":
                lines.append("DUMP %d" % o[1])
            elif k == "CLOSEST":
                lines.append("CLOSEST %d %040x" % (o[1], o[2]))
            elif k == "CONTACTS":
                lines.append("CONTACTS %d" % o[1])
        return lines

    def coq_ops(self):
        t = []
        for o in self.ops:
            k = o[0]
            if k == "ROUTER":
                t.append('Router "%s"' % handle_hex(0, o[1]))
            elif k == "OFFER":
                t.append('Offer %d %s "%s"' % (o[1], "true" if o[2] else "false", handle_hex(o[3], o[4])))
            elif k == "ADDNODES":
                t.append('AddNodes %d "%s" "%s"' % (o[1], handle_hex(o[2], o[3]), "".join(handle_hex(i, a) for i, a in o[4])))
            elif k == "LREQ":
                t.append('Lreq %d "%s"' % (o[1], handle_hex(o[2], o[3])))
            elif k == "RREQ":
                t.append('Rreq %d "%s"' % (o[1], handle_hex(o[2], o[3])))
            elif k == "DUMP":
                t.append("TDump %d" % o[1])
            elif k == "CLOSEST":
                t.append('Closest %d "%040x"' % (o[1], o[2]))
            elif k == "CONTACTS":
                t.append("TContacts %d" % o[1])
        return "[" + ";\n ".join(t) + "]%string"


def parse_handle_txt(x):
    i, a = x.split("@")
    return int(i, 16), comp.Addr.parse(a)


def coq_obs(lines):
    """Observation lines of the harness (without the NEW line, which prints nothing) -> Coq list."""
    t = []
    for l in lines:
        p = l.split(" ", 1)
        k = p[0]
        rest = p[1] if len(p) > 1 else ""
        if k == "OK":
            t.append("ObOk")
        elif k in ("L", "R"):
            t.append("ObFound %s" % ("true" if rest.strip() == "1" else "false"))
        elif k == "D":
            bs = []
            for b in rest.split("|"):
                sl = []
                for s in b.split(","):
                    if s == "B":
                        sl.append("00")
                    else:
                        i, a = parse_handle_txt(s[1:])
                        sl.append(("01" if s[0] == "Q" else "02") + handle_hex(i, a))
                bs.append('"' + "".join(sl) + '"')
            t.append("DumpObs [" + "; ".join(bs) + "]")
        elif k == "C":
            hs = [parse_handle_txt(x) for x in rest.split(",")] if rest.strip() else []
            t.append('ClosestObs "%s"' % "".join(handle_hex(i, a) for i, a in hs))
        elif k == "K":
            g, q = rest.split(";")
            ga = [comp.Addr.parse(x) for x in g.split(",")] if g.strip() else []
            qa = [comp.Addr.parse(x) for x in q.split(",")] if q.strip() else []
            t.append('ContactsObs "%s" "%s"' % ("".join(handle_hex(0, a) for a in ga), "".join(handle_hex(0, a) for a in qa)))
        else:
            raise Broken("unexpected table harness line: " + l[:100])
    return "[" + ";\n ".join(t) + "]%string"


def gen_case(rng, kind, consts):
    """kind: 'mixed' | 'deep' | 'status' """
    r = rng.below(10)
    if r == 0:
        local = 0
    elif r == 1:
        local = (1 << 160) - 1
    else:
        local = comp.rand_id(rng)
    c = Case(local)
    v6 = rng.chance(1, 4)
    now = rng.choice([0, 1, 3 * 86400 * S])
    last_seen = consts["node_max_last_seen"]
    bounds = sorted(set([MIN15, last_seen]))
    recent = consts["node_recently_requested"]
    known = []           # (id, addr)
    routers = []
    if rng.chance(1, 2):
        for _ in range(rng.range(1, 2)):
            a = comp.rand_addr(rng, v6)
            routers.append(a)
            c.ops.append(("ROUTER", a))

    def new_handle():
        r = rng.below(20)
        if kind == "deep":
            d = rng.choice([rng.range(0, 160), rng.range(150, 160), 159, 158, rng.range(0, 12)])
        elif r < 12:
            d = rng.range(0, 10)
        elif r < 17:
            d = rng.range(0, 160)
        elif r < 19:
            d = 159
        else:
            d = 160
        idv = id_at_depth(rng, local, d)
        rr = rng.below(12)
        if rr == 0 and routers:
            a = rng.choice(routers)
        elif rr == 1 and known:
            a = rng.choice(known)[1]          # same address, (probably) other id
        else:
            a = comp.rand_addr(rng, v6)
        if rr == 2 and known:
            idv = rng.choice(known)[0]        # same id, other address
        return idv, a

    def step_time():
        nonlocal now
        r = rng.below(14)
        if r < 6:
            dt = rng.choice([0, 0, 1, S, 5 * S])
        elif r < 9:
            dt = rng.choice(bounds) + rng.choice([-S, -1, 0, 1, S])
        elif r < 10:
            dt = recent + rng.choice([-1, 0, 1])
        elif r < 12:
            dt = rng.below(5 * 60 * S)
        else:
            dt = rng.below(20 * 60 * S)
        if kind == "deep" and rng.chance(3, 4):
            dt = rng.choice([0, 1, S])
        now += dt

    if kind == "status":
        # few contacts, long per-contact histories: answers, hearsay, queries sent and received around the 15 min / 30 s
        # boundaries (ageing, unanswered-query counters, resets)
        hs = [new_handle() for _ in range(rng.range(1, 4))]
        for idv, a in hs:
            c.ops.append(("OFFER", now, rng.chance(1, 2), idv, a))
        for _ in range(rng.range(30, 90)):
            r = rng.below(16)
            if r < 7:
                now += rng.choice([0, 1, S, 5 * S, 40 * S])
            elif r < 13:
                now += rng.choice(bounds) + rng.choice([-S, -1, 0, 1, S, 60 * S])
            else:
                now += rng.below(40 * 60 * S)
            idv, a = rng.choice(hs)
            r = rng.below(12)
            if r < 3:
                c.ops.append(("OFFER", now, True, idv, a))       # it answered
            elif r < 4:
                c.ops.append(("OFFER", now, False, idv, a))      # somebody named it
            elif r < 8:
                c.ops.append(("LREQ", now, idv, a))
            elif r < 10:
                c.ops.append(("RREQ", now, idv, a))
            else:
                c.ops.append(("CLOSEST", now, idv))
            c.ops.append(("DUMP", now))
            c.ops.append(("CONTACTS", now))
        return c
    n_ops = rng.range(40, 110) if kind != "deep" else rng.range(60, 140)
    deep_prefix = rng.range(3, 150)
    for _ in range(n_ops):
        step_time()
        r = rng.below(20)
        if r < 11 or not known:
            if kind == "deep" and rng.chance(2, 3):
                idv = id_at_depth(rng, local, rng.range(deep_prefix, min(159, deep_prefix + 12)))
                a = comp.rand_addr(rng, v6)
            elif rng.chance(1, 4) and known:
                idv, a = rng.choice(known)        # repeat offer
            else:
                idv, a = new_handle()
            good = rng.chance(1, 2)
            c.ops.append(("DUMP", now))
            c.ops.append(("OFFER", now, good, idv, a))
            c.ops.append(("DUMP", now))
            known.append((idv, a))
        elif r < 12:
            idv, a = rng.choice(known) if rng.chance(1, 2) else new_handle()
            named = [new_handle() if rng.chance(2, 3) else rng.choice(known) for _ in range(rng.range(0, 9))]
            c.ops.append(("ADDNODES", now, idv, a, named))
            known.append((idv, a))
            known.extend(named)
            c.ops.append(("DUMP", now))
        elif r < 15:
            idv, a = rng.choice(known)
            c.ops.append(("LREQ", now, idv, a))
        elif r < 17:
            idv, a = rng.choice(known)
            c.ops.append(("RREQ", now, idv, a))
        elif r < 19:
            rr = rng.below(6)
            if rr == 0:
                tgt = local
            elif rr < 3:
                tgt = local ^ (1 << rng.below(160))
            elif rr == 3 and known:
                tgt = rng.choice(known)[0]
            else:
                tgt = comp.rand_id(rng)
            c.ops.append(("DUMP", now))
            c.ops.append(("CLOSEST", now, tgt))
        else:
            c.ops.append(("CONTACTS", now))
    c.ops.append(("DUMP", now))
    c.ops.append(("CONTACTS", now))
    return c


def run_cases(cases):
    """Run the real RoutingTable; returns list of observation-line lists (aligned with case.ops)."""
    obs = comp.run_script("table", [c.script() for c in cases])
    for c, o in zip(cases, obs):
        if len(o) != len(c.ops):
            raise Broken("table harness: %d ops, %d outputs" % (len(c.ops), len(o)))
    return obs


def eval_cases(tag, cases, obs, extra_evals=()):
    """Evaluate in Coq: diff (model vs implementation) and any extra evaluators
    (each a format string with {i}); returns per case list of blocks."""
    terms = []
    for i, (c, ob) in enumerate(zip(cases, obs)):
        s = ("Definition ops_%d := %s.\nDefinition obs_%d := %s.\n"
             "Eval vm_compute in (diff %d ops_%d obs_%d).\n" % (i, c.coq_ops(), i, coq_obs(ob), c.local, i, i))
        for e in extra_evals:
            s += "Eval vm_compute in (%s).\n" % e.format(i=i, local=c.local)
        terms.append(s)
    header = ("From BT Require Import model.Prelude model.Table run.Run_Table run.Run_TableCheck.\n"
              "Open Scope Z_scope.\n")
    return comp.shard_eval(tag, header, terms, 1 + len(extra_evals), timeout=1500)


def shrink_case(case, fails):
    """Delta-debug the op list (DUMP/observation ops are kept consistent by re-running)."""
    cur = list(case.ops)
    chunk = max(1, len(cur) // 2)
    while chunk >= 1:
        i = 0
        changed = False
        while i < len(cur):
            cand = cur[:i] + cur[i + chunk:]
            cc = Case(case.local)
            cc.ops = cand
            if cand and fails(cc):
                cur = cand
                changed = True
            else:
                i += chunk
        if not changed:
            chunk //= 2
    out = Case(case.local)
    out.ops = cur
    return out
