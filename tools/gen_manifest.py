#!/usr/bin/env python3
"""Writes /verif/MANIFEST.json from the table below (kept in one place so the manifest stays valid)."""
import json
import os

VERIF = os.path.dirname(os.path.dirname(os.path.abspath(__file__)))
NOTE = ("Trusted: Coq 8.16.1 kernel + vm_compute; tools/gen_consts.py; the Rust harness + Python differ "
        "(correspondence check); the hand-written Gallina model. ")
TECH = "machine-checked proof in Coq (Rocq) over a Gallina model + differential correspondence check against the Rust code"

CLAIMED = {
    "C01": {
        "text": "Proved (props/C01.v, all interleavings of queries at one serving node): c01_server_contract - a get_peers from "
                "an IP is answered with a token which, presented by announce_peer from any port of that IP within 10 minutes, is never "
                "refused (acknowledgement, or 202 when 500 live pairs are stored); once acknowledged, every get_peers for the info-hash from "
                "a same-family requester less than 24 h later contains the contact (source IP with the announced port, or the source port "
                "when implied) unless the reply is cut at the datagram cap, and none 24 h later or more does absent a re-announce; "
                "c01_server_contract_bounded states it on observable data only; c01_announce_then_find is the peer-store half on every "
                "history; c01_run_*_projection tie the handler's run to the token-store and peer-store runs of C06/C07. Decided per run "
                "(partial): the multi-node composition - 2..9 real nodes on the simulated loss-free network in virtual time up to 26 h "
                "(IPv4/IPv6, explicit/implied port, several announcers, re-announce, searches at offsets 0 s .. > 24 h incl. the 24 h "
                "boundary, latencies 1 ms .. 749 ms): must-yield / must-not-yield / nothing-unannounced on the search streams. Known "
                "finding F-C01 (one-way latency in [0.75 s, 1 s)) is reproduced on every run and reported as KNOWN-FINDING.",
        "ref": "7/C01", "axioms": "none",
        "note_extra": "PARTIAL: the network-level statement (c01_network in DESIGN.md) is decided on the explored runs, not proved; the theorems cover one serving node against every query history. Multi-node runs use the terse event log, so their handler events are not replayed through the model (the handler model is tied to the code by the replays of C03/C05/C06/C07).",
    },
    "C02": {
        "text": "Proved (props/C02.v): c02_binary_search_correct - the branch-free binary search of core::slice, as used by "
                "insert_sorted_node, returns a correct insertion point on a sorted list; c02_candidates_stay_sorted and the three "
                "preservation theorems - the candidate list of a search is sorted by XOR distance at its start and after every "
                "response and timeout; c02_announce_to_closest_holders - the (at most 8) announce targets are the closest token "
                "holders among all nodes the search heard of (with C03: each carries the token that node issued, the info-hash, our "
                "id, the configured/implied port); c02_yield_all - an accepted answer puts exactly its values on the stream, in order, "
                "once per occurrence; c02_dup_id_caveat - why distinct ids are required (the code's own TODO). Decided per run "
                "(partial): that under the property's premises the search LEARNS and queries the network's 8 closest nodes - the real "
                "node searches worlds of 1..300 (thorough: ..1000) honest responders (uniform / clustered around target / around the "
                "searcher) and the checker compares announce targets with the true 8 closest, checks they stored the contact, and "
                "compares the stream with all answers as multisets; every run is replayed through the Coq lookup model. "
                "Second group (proofs/Heard_Facts.v, 20 theorems): c02_heard_becomes_candidate - every node named in an accepted answer becomes a candidate; c02_request_round / c02_iterate_round_queries_slots / c02_initial_picks - each round hands exactly one get_peers per picked node to the socket; c02_endgame_queries_all_unflagged - the end-game queries every candidate not yet queried; c02_flags_truthful - in every reachable state a candidate marked queried was queried; c02_all_heard_queried_at_endgame - when a search enters its end-game every node it has heard of has been queried or is queried in that very step (with C04: no search ends with an unqueried candidate heard of before its end-game); exception proved necessary by c02_dummy_handle_caveat: the dummy handle (id 0, 0.0.0.0:0) named by a responder.",
        "ref": "7/C02", "axioms": "none",
        "note_extra": "PARTIAL: convergence (c02_all_closest_queried) is checker-decided on explored networks. The standard library's binary search is modelled from its source (core::slice::binary_search_by, branch-free variant).",
    },
    "C17": {
        "text": "Theorems (props/C17.v): c17_len_formula - exact length of the encoding of every response/error; c17_reply_le_1500 - for "
                "every state, source and query whose transaction id is at most 800 bytes (corollary: 32), the reply built by the "
                "repaired handle_query encodes to at most 1500 bytes (all four query kinds, both error replies); c17_queries_small - "
                "the node's own get_peers / find_node queries are exactly 101 / 98 bytes, an announce_peer at most 141 + digits + "
                "|token|; c17_pinned_refuted - without the cap 180 IPv4 peers give a 1746-byte reply (the genuine defect repaired in "
                "/repo commit 226d529). Tie: 1500 / 700 / 8 / 21 read from the source; trace validation of the handler; the length of "
                "EVERY datagram handed to the socket in the simulated runs (60..210 stored peers, all want combinations, ids of "
                "0..32 bytes).",
        "ref": "7/C17", "axioms": "none",
        "note_extra": "Outside the property's quantifier: a remote token longer than 1355 bytes would make the node's announce_peer exceed 1500 bytes.",
    },
    "C15": {
        "text": "Proved (props/C15.v): c15_first_round_no_panic - with the repaired contact list (union of routers and starting nodes) "
                "and a fresh shared id the (address,id) registry's uniqueness assertion cannot fail, for every router set and node "
                "set, overlapping or not; c15_pinned_refuted - the pinned list trips it as soon as one address is in both sets (the "
                "genuine defect repaired in /repo commit 182e0d1: the panic killed the bootstrap task and then the whole node); "
                "c15_waiter_registered_or_told / c15_all_waiters_told - every caller of bootstrapped() is told at once when "
                "bootstrapped, else registered, and every registered waiter is notified at the transition; c15_backoff_bounds - "
                "retry sleeps lie in [2 s, 512 s] (base/cap from the source). Decided per run (partial): no contacts => bootstrapped "
                "immediately and no datagram; never before a contact answered; with plain nodes every waiter resolves true within 11 "
                "min of a contact becoming responsive after outages of 3 s .. 2 h (continuous or flapping); contacts given as node "
                "and router, duplicated, silent, error- or garbage-answering never stop API calls from completing - on simulated runs "
                "of the real node (20 quick / 400 thorough configurations), with handler events replayed through the Coq model. "
                "Socket layer (model/Socket.v: the demultiplexer between bootstrap exchanges and the handler): c15_socket_deliver_iff_pending, c15_socket_duplicate_goes_to_handler (a second copy of an answer can never reach the exchange again, so make_ready's assertion holds), c15_socket_decodable_not_lost, c15_socket_panic_iff_double_register, c15_socket_no_panic_when_fresh; tied to src/socket.rs by replaying every registration, removal and received datagram of the simulated runs through the model and comparing each routing decision (to the exchange / to the handler / dropped).",
        "ref": "7/C15", "axioms": "none",
        "note_extra": "PARTIAL: the attempt loop (timing of completion) is exercised, not modelled; 'node stays alive' is observed through panics/API liveness of the runs.",
    },
    "C04": {
        "text": "Proved (props/C04.v, 27 theorems, every list of events): c04_no_stuck_search - in every reachable state every open "
                "search is ongoing and owns a pending timer entry (a query timeout for each outstanding query, or its end-game entry) due "
                "within 1.5 s of the last handled event, so no search can wait forever once due timers are served; c04_stream_end_iff / "
                "_once / _accounting - a stream end is emitted exactly when a search leaves the open set (or completes in the step that "
                "starts it), once; c04_end_is_final - after its end no yield and no second end for that search; c04_stream_end_cause / "
                "c04_closed_in_endgame / c04_not_endgame_stays_open - a search is closed only by the firing of its own end-game timer "
                "(never by an answer, a query timeout or any other event), i.e. not early; the timer fires in (deadline, id) order and "
                "removal takes exactly the fired/cancelled entry; a search on a node with no good node closes in the step that starts "
                "it. Hypothesis of the first group: activity ids distinct and within 5 bytes for the activities in use (what C19 "
                "proves of the real generator). Decided per run (partial): the wall-clock bounds (3 s under silence; 1.5 s per distinct "
                "node + 3 s) on the virtual clock of simulated runs with silent / error / garbage responders, loss, duplication, "
                "send-failure windows and ever-closer worlds; every such run is replayed through the Coq model.",
        "ref": "7/C04", "axioms": "none",
        "note_extra": "PARTIAL: that due timers are served on time is the runtime's part (tokio); the quantitative bounds are measured on explored runs.",
    },
    "C03": {
        "text": "Safety theorems (props/C03.v) over the Gallina lookup/handler model, for ARBITRARY states and events (any datagram from "
                "any source in any order, duplicates, forged ids, timers): c03_yield_only_from_outstanding - every address a search "
                "yields is in the values of a response whose transaction id is, at that moment, an outstanding get_peers query of "
                "that very search; c03_unsolicited_rejected / c03_short_or_long_id_rejected - ids of wrong length or with an unknown "
                "action prefix change nothing; c03_cross_search_isolation - a response never changes another search; "
                "c03_announce_only_token_holders - at most 8 announce_peer, each to a token holder with its latest token, the "
                "searched info-hash, our id and the configured/implied port, none when announcing was not requested; "
                "c03_tokens_only_from_accepted - tokens are recorded only from accepted responses under the responder's (id, address). "
                "Tie: simulated runs of the real node among 1..60 scripted responders under latency, loss, duplication, send "
                "failures and injected forgeries (replays, flipped id bits, right id from another source, 7-byte ids, fabricated "
                "responses); every handled event is replayed through the model in Coq (exact datagrams, yields, stream ends) and an "
                "auditor checks every stream item and announce_peer of the real node against what it actually received.",
        "ref": "7/C03", "axioms": "none",
        "note_extra": "As the property is worded, a response is accepted on its id alone: the right id from another source is accepted (token filed under the forger's handle) - inside the property.",
    },
    "C11": {
        "text": "Proved (props/C11.v, 19 theorems, for every list of events - datagrams, timers, searches, re-bootstraps): "
                "c11_refresh_alive - once the first bootstrap has completed, in every later state exactly one table-refresh timer entry "
                "is pending, it is the remembered one, and its deadline is at most 6 s after the last handled event (the chain never dies; "
                "with C18: never multiplies); c11_alive_step / c11_aux_step are the per-event invariants; c11_round_picks / "
                "c11_round_outputs / c11_round_cursor - a round sends exactly one find_node to each of the first 4 questionable, not "
                "recently queried contacts of the enumeration around the cursor's target, marks them queried, advances the cursor; "
                "c11_answer_applied / c11_answer_makes_good - a refresh answer re-admits the responder as good; c11_two_unanswered_bad / "
                "c11_silent_stays_bad / c11_bad_not_listed - two unanswered queries to a stale contact make it bad and bad contacts are "
                "in no enumeration (contacts, find_node answers). Decided per run (partial): the timed statements - on runs of 45 min .. 8 h "
                "of the real node with 1..8 scripted contacts (always answering / silent from t, named by others until t'), load_contacts "
                "sampled every 5 s and find_node probes every 60 s: never lost once admitted, questionable < 30 s, absent after max(silent "
                "+ 20 min, last naming + 5 min); runs up to 5000 handler events are replayed through the Coq model.",
        "ref": "7/C11", "axioms": "none",
        "note_extra": "PARTIAL: the 30 s / 20 min / 5 min bounds over unbounded runs are decided on the explored runs; the theorems give the mechanism (chain alive, per-round picks, ageing). One-way latency <= 200 ms in the runs.",
    },
    "C12": {
        "text": "Theorems (props/C12.v): c12_query_adds_nobody - for every state and query the set of (id,address) pairs in the routing "
                "table is unchanged by handling it; c12_unsolicited_noop / c12_wrong_length_id - a response whose id is not 8 bytes or "
                "whose action prefix is neither a live search's nor the refresh's leaves the whole node state unchanged and produces "
                "nothing; c12_named_offer_is_questionable / c12_hearsay_never_promotes - named nodes are offered as questionable and "
                "such an offer never makes a contact good; c12_table_invariant_every_event - after every handler event (responses "
                "naming arbitrary nodes included) the node's table satisfies the C08 invariant: no own id, no router address, "
                "placement, no duplicates. Tie: trace validation of the real handler in simulated runs with unsolicited queries and "
                "responses (0/2/8/12-byte ids, forged prefixes, replays) and an audit of the real table operations (hook) and "
                "contacts (API) around every injected datagram. "
                "Also: queries that merely claim the id of a known contact from another address, responses whose transaction id is a live id plus one byte; rule on the API: a contact is reported good only if a datagram (answer or query) came from its address in the last 15 min.",
        "ref": "7/C12", "axioms": "none",
        "note_extra": "Inside the property's wording: a response carrying a live search's or the refresh's 5-byte prefix with any 3-byte suffix from any source does admit its sender as good.",
    },
    "C16": {
        "text": "Theorems (props/C16.v) over the repaired handler model: c16_early_search_queued - before the first bootstrap conclusion a "
                "search request produces nothing and joins the queue; c16_conclusion_releases_queue - at the first conclusion "
                "(Bootstrapped, or IdleBeforeRebootstrap so that a failing first attempt cannot starve it) the queued searches are "
                "started in request order by the very function that starts a search received at that moment; c16_pinned_refuted - "
                "the pinned handler ends such a search at once with no query (the genuine defect repaired in /repo commit e62c27e). "
                "Tie: trace validation; on the real node the same non-announcing search is issued at t=0, ms later, mid-bootstrap and "
                "30 s after completion and the yielded peer sets are compared.",
        "ref": "7/C16", "axioms": "none", "note_extra": "",
    },
    "C18": {
        "text": "c18_one_chain: after ANY list of events (datagrams, timers, searches, any number of bootstrap completions and losses) "
                "at most one table-refresh entry is pending in the timer of the repaired handler model - proved as an invariant over "
                "every run; hence refresh rounds occur at most once per firing of that single 6 s timer plus once per bootstrap "
                "completion. c18_pinned_refuted: without the cancellation three completions leave three pending refresh timers "
                "(the genuine defect repaired in /repo commit 8da3607). Tie: 6 s read from the source; trace validation; the "
                "refresh-round and pending-timer hooks of simulated runs with re-bootstraps every ~5 s and outages (thorough: up to "
                "6 virtual hours, thousands of cycles) checked for 'two rounds < 6 s apart only with a completion in between'.",
        "ref": "7/C18", "axioms": "none",
        "note_extra": "The window-rate form of the bound (#rounds <= floor((b-a)/6s)+1+#completions) is checked on the runs, the theorem is the one-chain invariant it follows from.",
    },
    "C05": {
        "text": "Theorems (props/C05.v) over the Gallina handler model for ALL node states and ALL messages: a read-only node never "
                "replies and is unchanged (c05_read_only_silent); a serving node produces exactly one reply per query, echoing the "
                "transaction id bytes of any length and carrying its own id or an error (c05_one_reply); exact shapes of ping / "
                "find_node / get_peers replies (20-byte token; values only of the requester's family and capped; node lists only of "
                "the requested families - want, else own family - at most 8 each) and of announce_peer (203 iff the token check fails, "
                "and then the store is untouched; 202 iff the store refuses; ack otherwise; stored contact = source IP with the "
                "announced or implied port); and c05_only_queries_otherwise: every event that is not a query - responses, errors, "
                "timers, commands, bootstrap changes - sends nothing but queries. Tie: every event the real handler handled in "
                "simulated node runs (hook log) is replayed through the model in Coq and must yield exactly the real datagrams, "
                "yields and stream ends (trace validation); a reply-discipline checker runs on the real datagrams and failing "
                "scenarios are shrunk.",
        "ref": "7/C05", "axioms": "none",
        "note_extra": "Undecodable datagrams never reach the handler (socket loop); that clause is observed in the runs (and covered by C14's decoder theorems), not a theorem of the handler model. Assumptions A-ORDER, A-TIME.",
    },
    "C13": {
        "text": "Theorems (props/C13.v, proved by the codec work package) over the Gallina model of message.rs/compact.rs/bencode.rs and the "
                "serde/torrust-serde-bencode semantics: c13_encode_canonical (encode = canonical bencoding of the BEP5/32 dictionary "
                "tree_of_msg for every well-formed message), c13_roundtrip (decode(encode m) = m, also with trailing bytes), "
                "c13_bencode_roundtrip, c13_reorder_unknown_keys (any permutation of entries and unknown extra keys at top level, "
                "inside a and inside r decode to the same message; nesting bound 32 from the precheck), c13_rejects (q/a mismatch, "
                "ids not 20 bytes, node strings not a multiple of 26/38, peer strings not 6/18 => None), c13_none_is_error (the "
                "fuelled decoder never runs out of fuel). Tie: constants from the source; the public Message::encode/decode of the "
                "real crate is run on thousands of structured messages, their key-permuted/extended re-encodings and a malformed "
                "stream, and compared with the model (Some msg/None and exact bytes) in Coq.",
        "ref": "7/C13", "axioms": "none",
        "note_extra": "The decoder model is my reading of serde-derive + torrust-serde-bencode (modelled, not verified; agreement measured on >10^5 inputs in the thorough tier).",
    },
    "C14": {
        "text": "Theorems (props/C14.v) over the instrumented decoder model (precheck of src/bencode.rs + library): c14_alloc_bounded - for "
                "EVERY byte string b every allocation the decoder requests is <= length b (and so is their sum); c14_depth_bounded - "
                "container nesting <= 34 (MAX_DEPTH 32 read from the source + the 2 levels the generic value reader is entered with); "
                "c14_pinned_refuted / c14_onepass_refuted - the decoder without precheck, and the first (one-pass) repair, request a "
                "99999999999-byte allocation on a 16- resp. 42-byte datagram and recurse 700+ levels (the genuine defects repaired in "
                "/repo commits 5bf0439 + 34e8a98). Tie: each input of a structure-aware malformed stream (length prefixes up to and "
                "beyond 2^64, integer limits, nesting to 1500, truncation at every offset, type swaps, struct-as-list desync, non-UTF-8) "
                "is decoded by the real crate in a supervised child process (2 MiB stack, allocation meter, rlimit, panic hook) and "
                "compared with the model. The running-node clause (a node keeps serving after any datagram sequence) is exercised by "
                "the node runs of C05/C12 (no PANIC line, API calls answered), not proved. "
                "Running-node clause: the malformed stream is injected into a real serving node (also with every datagram duplicated back to back, including the answers to its own bootstrap queries); no panic, pings and API answered after every batch; handled events replayed through the Coq model.",
        "ref": "7/C14", "axioms": "none", "category": "proof",
        "note_extra": "Partial by nature: that the real allocator/stack survive is observed, the theorem bounds what is requested. std/serde/tokio are modelled, not verified.",
    },
    "C08": {
        "text": "Theorems (props/C08.v) over the Gallina model of node.rs/bucket.rs/table.rs. c08_inv_all_histories: the shape invariant "
                "TInv holds after EVERY history of offers (responder/hearsay), whole responses, queries sent and received at arbitrary "
                "times, for every local id and router set - proved through the mutual recursion add_node/bucket_node/split_bucket for "
                "every fuel; c08_live_shape: what TInv says at any instant (1..160 buckets of 8 slots; no live node with the own id or a "
                "router address; every live node in the bucket of its shared-prefix length; no (id,address) live twice). Bucket "
                "transition laws for every bucket/time/offer: at most one slot changes; a live node only leaves if the bucket has no "
                "bad/empty slot and it is strictly worse than the newcomer; a full bucket of good nodes rejects; room or a worse node "
                "admits; a repeated offer updates in place and never lowers the standing. c08_pinned_refuted: the pre-fix add_node "
                "loses a questionable node next to 7 empty slots (the genuine defect repaired in /repo commit a9da3a6). Tie: 8/160/15 "
                "min/2 read from the source; slot-by-slot differential runs of the real RoutingTable (deep split chains, every prefix "
                "depth, routers, own id, repeats) under the virtual clock; c08_ok (shape + all transition clauses at table level, "
                "including across splits) evaluated in Coq on the real dumps; failing scripts are shrunk. "
                "Checker theorems: c08_checker_accepts_model - c08_ok never rejects the model's own dumps (scripts with routers first, no placeholder address); c08_checker_sound_shape / _offer - every dump it accepts has 1..160 buckets of 8 slots, no live handle twice, every live slot in the bucket of its shared-prefix length, and every accepted offer step satisfies the nine eviction/update clauses; all resting on add_node_spec, a node-by-node specification of add_node through every chain of bucket splits.",
        "ref": "7/C08", "axioms": "none",
        "note_extra": "Table-level transition clauses across a bucket split are proved at bucket level and validated (not proved) at table level by c08_ok on every run. Offered addresses are assumed != 127.0.0.1:0 (empty-slot placeholder).",
    },
    "C09": {
        "text": "c09_walk_perm: for every start index 0..160 (the whole domain) the alternating bucket walk visits each index < 160 exactly "
                "once (finite sweep by vm_compute lifted with forallb_forall). c09_enumeration_perm: for every table satisfying the C08 "
                "invariant, every target and every instant, closest_nodes is a permutation of the live nodes (each exactly once); "
                "c09_enumeration_all_histories: hence on every table reachable by any operation history. Tie: the real iterator's exact "
                "output order is compared with the model on tables built by long random histories (1..150+ buckets) for targets = local "
                "id, single-bit flips, known ids, random; c09_ok on the real dumps also checks that nodes sharing a longer prefix with "
                "the target than the local id come first. Reply lists (handler part): c09_reply_distinct - the nodes/nodes6 lists of a "
                "find_node/get_peers reply hold pairwise distinct contacts, each a live table entry, never the node's own id; "
                "c09_reply_count - exactly min(8, live nodes of the family) of them; c09_nearest_bucket_first - the enumeration begins with "
                "the live nodes of the bucket the target falls into. "
                "Handler part on the real node: tables of 9..40 live contacts; a find_node and a get_peers for the same key handled back to back must list the same nodes; at most 8 distinct contacts, never the node itself; events replayed through the Coq model (exact lists and order). "
                "Checker theorems: c09_checker_accepts_model; c09_checker_sound - an accepted closest-list is duplicate-free, a permutation of the live slots of the dump, with nodes sharing a longer prefix with the target first.",
        "ref": "7/C09", "axioms": "none", "note_extra": "",
    },
    "C10": {
        "text": "Theorems (props/C10.v) over per-contact event histories (answer, hearsay mention, query received, query sent; any "
                "interleaving, non-decreasing times): closed form of the classification; reported good only if it answered or - being "
                "known - queried in the last 15 minutes (so idle for 15 min => not good); an accepted answer makes it good immediately; "
                "hearsay-only contacts are questionable; not good + two consecutive unanswered queries => bad (unreported, not found "
                "by find_node_mut) for as long as it neither answers nor is named again. Tie: 15 min / 2 from the source; differential "
                "runs of the real RoutingTable (statuses in dumps/contacts) and c10_ok recomputing the clauses from the event history "
                "alone. KNOWN FINDING F-C10 (listed in known_findings.json, witnessed by c10_renamed_after_bad_refuted and reproduced "
                "on the real table every run): a hearsay mention re-admits a contact that went bad before it answers again. "
                "Per-contact histories (1-3 contacts, 30-90 events each) exercise the unanswered-query counter and its resets. "
                "Checker theorems: c10_checker_accepts_model (scripts with non-decreasing clock); c10_checker_sound - in every accepted dump a contact reported good has an answer or received query less than 15 min old in its history and no contact with two unanswered queries is listed.",
        "ref": "7/C10", "axioms": "none", "note_extra": "",
    },
    "C06": {
        "text": "Theorems (props/C06.v) over the Gallina model of TokenStore, for every history pre ++ issue :: mid ++ presentation :: post "
                "with arbitrary pre/mid/post (any interleaving of issues and presentations from any IPv4/IPv6 addresses) and non-decreasing "
                "times: a token is accepted from its IP up to and including 10 min after issue whatever happened in between "
                "(c06_valid_10min), never accepted at or after 30 min (c06_dead_30min), never from another IP (c06_ip_bound), and byte "
                "strings that are not a digest of this run are always refused (c06_unissued_refused). Invariant-based proof (secret "
                "tracking through lazy rotations incl. the whole-second floor), unbounded, no axioms. Tie: REFRESH_INTERVAL read from "
                "src/token.rs (theorems state 10/30 min, so drift breaks the proofs); the real TokenStore is run under the virtual clock "
                "on boundary-biased scripts and compared with the model (accept/refuse sequence + token equality pattern); an executable "
                "checker of the four clauses (c06_ok) is evaluated in Coq on the real accept flags; failing scripts are shrunk. The "
                "handler clause (storing gated on the check, source IP passed) is covered by the handler model of C05. "
                "Handler part: server scenarios on the real node with right / foreign / altered / wrong-length / stale tokens; servercheck decides from the datagrams alone that announces are accepted only with a token issued to that IP at most 30 min earlier and never refused within 10 min, and that nothing refused is stored; events replayed through the Coq model. "
                "Checker theorems: c06_checker_decides_clauses / c06_checker_sound - c06_ok accepts an observed flag sequence exactly when every issue/presentation pair in it satisfies the three clauses (same IP within 10 min accepted; 30 min or later refused; other IP refused; raw and wrong-length tokens refused); c06_checker_accepts_model - it never rejects the model's own run on scripts whose presentations refer to earlier issues.",
        "ref": "7/C06", "axioms": "none",
        "note_extra": "Assumptions A-SHA (SHA-1 injective on ip||secret: tokens are symbolic terms), A-RNG (fresh secrets), A-TIME.",
    },
    "C07": {
        "text": "Refinement theorem c07_refines_spec (props/C07.v): for EVERY history of announces and lookups with non-decreasing time "
                "stamps, every reply of the modelled AnnounceStorage equals the reply of an abstract map (info-hash,address) -> time of "
                "last successful announce: lookups return a duplicate-free list of exactly the addresses announced < 24 h ago; an "
                "announce is accepted iff the pair is live (renewal) or fewer than 500 distinct pairs are live, sets only that pair's "
                "time, and a refused announce changes nothing; c07_capacity: never more than 500 pairs. Unbounded induction over "
                "histories, kernel-checked, no axioms. Tie: 24 h and 500 are read from src/storage.rs by the translator (the theorems "
                "are stated with the property's numbers, so drift breaks the proof); the real AnnounceStorage is run under the virtual "
                "clock on boundary-biased scripts (24 h +-1 ns, 498..502 pairs) and compared reply by reply with the model in Coq; an "
                "executable checker of the spec (c07_ok) is evaluated on the real replies and failing scripts are shrunk. The handler "
                "part of C07 (contact address from port/implied port, family filter) is covered by the handler model of C05. "
                "Handler part: on the real serving node the values of every get_peers reply are exactly the live (< 24 h) acknowledged same-family contacts unless cut at the datagram cap (servercheck on the datagrams; up to 210 announcers per info-hash); events replayed through the Coq model. "
                "Checker theorems: c07_checker_decides_spec - the executable checker c07_ok evaluated on the implementation's observed replies returns None exactly when the observed trace satisfies the abstract-map specification (sound and complete, no side condition); c07_checker_accepts_model - it never rejects the proven model's own trace.",
        "ref": "7/C07", "axioms": "none",
        "note_extra": "Assumption A-TIME (one clock reading per operation, monotone clock). The per-hash HashMap vectors are represented by one insertion-ordered list.",
    },
    "C19": {
        "text": "Theorems (props/C19.v) over the Gallina model of AIDGenerator/MIDGenerator and TransactionID: for every "
                "shuffle oracle that returns permutations and any number of draws, message ids of one activity do not repeat "
                "within the first 2^24 draws and equal ids are >= 2^24-2047 draws apart; action prefixes do not repeat within "
                "2^40 activities; every id is exactly 8 bytes; from_bytes accepts exactly 8 bytes; (prefix, message id) -> 8 bytes "
                "is injective and action_id() recovers the prefix. Block length/modulus come from the source via the constants "
                "translator (B | M is a proof obligation). Tie: the real generators (production block size) are drawn 2^24+3*2048 "
                "times; every block start is compared with the model's closed form and selected blocks are replayed through the "
                "model with the observed order as oracle; the property's observable clauses are also evaluated on the real ids. "
                "Also: TransactionID::from_bytes on every length 0..16 (accepted iff 8 bytes); node part: over simulated runs with repeated re-bootstrap attempts and searches, no (transaction id, destination) pair is ever sent twice.",
        "ref": "7/C19", "axioms": "none",
        "note_extra": "Assumption A-RNG (shuffle permutes). The bootstrap first-round id sharing clause is covered by C15's check, not here.",
    },
    "C20": {
        "text": "Theorem c20_from_ip_valid: for every IPv4/IPv6 address and every value of the three random draws, the id built by "
                "the model of InfoHash::from_ip passes an independent BEP42 validator (top 21 bits of the 160-bit id = top 21 bits of "
                "CRC32-C over the masked octets with r=id[19]&7). Unbounded, kernel-checked, closed under the global context. Tie: masks "
                "read from the source by the constants translator (a changed mask breaks lemma masked_is_bep); byte-for-byte agreement "
                "of the model with ids the real from_ip returned on thousands of addresses (draws read back from the id); bep42_valid "
                "evaluated in Coq on every real id (gives the concrete failing address when broken).",
        "ref": "7/C20", "axioms": "none", "note_extra": "",
    },
}

NOT_YET = "check not built yet (work in progress; planned per DESIGN.md section 7) - not claimed until its check passes end to end"


def main():
    props = [json.loads(l) for l in open(os.path.join(VERIF, "properties.jsonl"))]
    checks = []
    for p in props:
        c = CLAIMED.get(p["id"])
        if not c:
            continue
        checks.append({
            "property_id": p["id"],
            "quick_cmd": "./check %s --tier quick" % p["id"],
            "thorough_cmd": "./check %s --tier thorough" % p["id"],
            "evidence_file": "/verif/evidence/%s.json" % p["id"],
            "replay_cmd_template": "./check %s --replay {path}" % p["id"],
            "engine": "coq-model+correspondence",
            "level_claimed": {"category": c.get("category", "proof"), "text": c["text"], "design_ref": "DESIGN.md section " + c["ref"]},
            "level_note": NOTE + "Axioms (Print Assumptions): " + c["axioms"] + ". " + c["note_extra"],
            "technique": TECH,
        })
    hooks = [l.strip() for l in open(os.path.join(VERIF, "hooks_commits.txt")) if l.strip()]
    m = {
        "version": 1,
        "setup_cmd": "./setup.sh",
        "hooks": {"guard": "btdht_verif",
                  "enable": "RUSTFLAGS=\"--cfg btdht_verif\" cargo build --offline (in /verif/harness, path dependency on /repo)",
                  "baseline_off_cmd": "cd /repo && cargo test --workspace --no-fail-fast --offline",
                  "source_commits": hooks, "add_only": True},
        "engines": [{"name": "coq-model+correspondence", "path": "/verif/check", "serves_properties": sorted(CLAIMED),
                     "kind_free_text": "Coq 8.16 development (coq/: model, proofs, props, run) + constants translator + Rust harness "
                                       "driving the real crate + vm_compute evaluation of the model on the implementation's inputs"}],
        "checks": checks,
        "notes": "See DESIGN.md. ./check <id> --tier quick|thorough; exit 2 = machinery broken (never a verdict).",
        "not_applicable": [{"property_id": p["id"], "reason": NOT_YET} for p in props if p["id"] not in CLAIMED],
    }
    with open(os.path.join(VERIF, "MANIFEST.json"), "w") as f:
        json.dump(m, f, indent=1)


if __name__ == "__main__":
    main()
