#!/usr/bin/env python3
"""Writes /verif/MANIFEST.json from the table below (kept in one place so the manifest stays valid)."""
import json
import os

VERIF = os.path.dirname(os.path.dirname(os.path.abspath(__file__)))
NOTE = ("Trusted: Coq 8.16.1 kernel + vm_compute; tools/gen_consts.py; the Rust harness + Python differ "
        "(correspondence check); the hand-written Gallina model. ")
TECH = "machine-checked proof in Coq (Rocq) over a Gallina model + differential correspondence check against the Rust code"

CLAIMED = {
    "C06": {
        "text": "Theorems (props/C06.v) over the Gallina model of TokenStore, for every history pre ++ issue :: mid ++ presentation :: post "
                "with arbitrary pre/mid/post (any interleaving of issues and presentations from any IPv4/IPv6 addresses) and non-decreasing "
                "times: a token is accepted from its IP up to and including 10 min after issue whatever happened in between "
                "(c06_valid_10min), never accepted at or after 30 min (c06_dead_30min), never from another IP (c06_ip_bound), and byte "
                "strings that are not a digest of this run are always refused (c06_unissued_refused). Invariant-based proof (secret "
                "tracking through lazy rotations incl. the whole-second floor), unbounded, no axioms. Tie: REFRESH_INTERVAL read from "
                "src/token.rs (theorems state 10/30 min, so drift breaks the proofs); the real TokenStore is run under the virtual clock "
                "on boundary-biased scripts and compared with the model (accept/refuse sequence + token equality pattern); an executable "
                "checker of the four clauses (c06_ok) is evaluated in Coq on the real accept flags; failing scripts are shrunk. The "
                "handler clause (storing gated on the check, source IP passed) is covered by the handler model of C05.",
        "ref": "7/C06", "axioms": "none",
        "note_extra": "Assumptions A-SHA (SHA-1 injective on ip||secret: tokens are symbolic terms), A-RNG (fresh secrets), A-TIME.",
    },
    "C07": {
        "text": "Refinement theorem c07_refines_spec (props/C07.v): for EVERY history of announces and lookups with non-decreasing time "
                "stamps, every reply of the modelled AnnounceStorage equals the reply of an abstract map (info-hash,address) -> time of "
                "last successful announce: lookups return a duplicate-free list of exactly the addresses announced < 24 h ago; an "
                "announce is accepted iff the pair is live (renewal) or fewer than 500 distinct pairs are live, sets only that pair's "
                "time, and a refused announce changes nothing; c07_capacity: never more than 500 pairs. Unbounded induction over "
                "histories, kernel-checked, no axioms. Tie: 24 h and 500 are read from src/storage.rs by the translator (the theorems "
                "are stated with the property's numbers, so drift breaks the proof); the real AnnounceStorage is run under the virtual "
                "clock on boundary-biased scripts (24 h +-1 ns, 498..502 pairs) and compared reply by reply with the model in Coq; an "
                "executable checker of the spec (c07_ok) is evaluated on the real replies and failing scripts are shrunk. The handler "
                "part of C07 (contact address from port/implied port, family filter) is covered by the handler model of C05.",
        "ref": "7/C07", "axioms": "none",
        "note_extra": "Assumption A-TIME (one clock reading per operation, monotone clock). The per-hash HashMap vectors are represented by one insertion-ordered list.",
    },
    "C19": {
        "text": "Theorems (props/C19.v) over the Gallina model of AIDGenerator/MIDGenerator and TransactionID: for every "
                "shuffle oracle that returns permutations and any number of draws, message ids of one activity do not repeat "
                "within the first 2^24 draws and equal ids are >= 2^24-2047 draws apart; action prefixes do not repeat within "
                "2^40 activities; every id is exactly 8 bytes; from_bytes accepts exactly 8 bytes; (prefix, message id) -> 8 bytes "
                "is injective and action_id() recovers the prefix. Block length/modulus come from the source via the constants "
                "translator (B | M is a proof obligation). Tie: the real generators (production block size) are drawn 2^24+3*2048 "
                "times; every block start is compared with the model's closed form and selected blocks are replayed through the "
                "model with the observed order as oracle; the property's observable clauses are also evaluated on the real ids.",
        "ref": "7/C19", "axioms": "none",
        "note_extra": "Assumption A-RNG (shuffle permutes). The bootstrap first-round id sharing clause is covered by C15's check, not here.",
    },
    "C20": {
        "text": "Theorem c20_from_ip_valid: for every IPv4/IPv6 address and every value of the three random draws, the id built by "
                "the model of InfoHash::from_ip passes an independent BEP42 validator (top 21 bits of the 160-bit id = top 21 bits of "
                "CRC32-C over the masked octets with r=id[19]&7). Unbounded, kernel-checked, closed under the global context. Tie: masks "
                "read from the source by the constants translator (a changed mask breaks lemma masked_is_bep); byte-for-byte agreement "
                "of the model with ids the real from_ip returned on thousands of addresses (draws read back from the id); bep42_valid "
                "evaluated in Coq on every real id (gives the concrete failing address when broken).",
        "ref": "7/C20", "axioms": "none", "note_extra": "",
    },
}

NOT_YET = "check not built yet (work in progress; planned per DESIGN.md section 7) - not claimed until its check passes end to end"


def main():
    props = [json.loads(l) for l in open(os.path.join(VERIF, "properties.jsonl"))]
    checks = []
    for p in props:
        c = CLAIMED.get(p["id"])
        if not c:
            continue
        checks.append({
            "property_id": p["id"],
            "quick_cmd": "./check %s --tier quick" % p["id"],
            "thorough_cmd": "./check %s --tier thorough" % p["id"],
            "evidence_file": "/verif/evidence/%s.json" % p["id"],
            "replay_cmd_template": "./check %s --replay {path}" % p["id"],
            "engine": "coq-model+correspondence",
            "level_claimed": {"category": c.get("category", "proof"), "text": c["text"], "design_ref": "DESIGN.md section " + c["ref"]},
            "level_note": NOTE + "Axioms (Print Assumptions): " + c["axioms"] + ". " + c["note_extra"],
            "technique": TECH,
        })
    hooks = [l.strip() for l in open(os.path.join(VERIF, "hooks_commits.txt")) if l.strip()]
    m = {
        "version": 1,
        "setup_cmd": "./setup.sh",
        "hooks": {"guard": "btdht_verif",
                  "enable": "RUSTFLAGS=\"--cfg btdht_verif\" cargo build --offline (in /verif/harness, path dependency on /repo)",
                  "baseline_off_cmd": "cd /repo && cargo test --workspace --no-fail-fast --offline",
                  "source_commits": hooks, "add_only": True},
        "engines": [{"name": "coq-model+correspondence", "path": "/verif/check", "serves_properties": sorted(CLAIMED),
                     "kind_free_text": "Coq 8.16 development (coq/: model, proofs, props, run) + constants translator + Rust harness "
                                       "driving the real crate + vm_compute evaluation of the model on the implementation's inputs"}],
        "checks": checks,
        "notes": "See DESIGN.md. ./check <id> --tier quick|thorough; exit 2 = machinery broken (never a verdict).",
        "not_applicable": [{"property_id": p["id"], "reason": NOT_YET} for p in props if p["id"] not in CLAIMED],
    }
    with open(os.path.join(VERIF, "MANIFEST.json"), "w") as f:
        json.dump(m, f, indent=1)


if __name__ == "__main__":
    main()
