"""KRPC helpers shared by props/c13.py and props/c14.py: message values, their canonical
text form (harness `codec`), Coq terms (run/Run_Krpc.v), an independent bencode encoder
for trees, the BEP 5/32 tree of a message, random messages and the malformed stream."""
import os
import re

import comp
import vlib
from vlib import Broken

# --------------------------------------------------------------------------
# message values (plain dicts)
#  {"t": bytes, "k": "ping", "id": int}
#  {"t":, "k": "find_node", "id":, "target":, "want": None|"n4"|"n6"|"both"}
#  {"t":, "k": "get_peers", "id":, "ih":, "want":}
#  {"t":, "k": "announce_peer", "id":, "ih":, "port": None|int, "token": bytes}
#  {"t":, "k": "r", "id":, "values": [Addr], "nodes": [(id, Addr)], "nodes6": [(id, Addr)], "token": None|bytes}
#  {"t":, "k": "e", "code": int, "text": bytes}


def idhex(x):
    return "%040x" % x


def render(m):
    """canonical one-line description (what harness `codec` prints / reads)"""
    t = m["t"].hex()
    k = m["k"]
    if k == "ping":
        return "t=%s q=ping id=%s" % (t, idhex(m["id"]))
    if k == "find_node":
        return "t=%s q=find_node id=%s target=%s want=%s" % (t, idhex(m["id"]), idhex(m["target"]), m["want"] or "-")
    if k == "get_peers":
        return "t=%s q=get_peers id=%s ih=%s want=%s" % (t, idhex(m["id"]), idhex(m["ih"]), m["want"] or "-")
    if k == "announce_peer":
        return "t=%s q=announce_peer id=%s ih=%s port=%s token=%s" % (
            t, idhex(m["id"]), idhex(m["ih"]), "-" if m["port"] is None else str(m["port"]), m["token"].hex())
    if k == "r":
        return "t=%s r id=%s values=%s nodes=%s nodes6=%s token=%s" % (
            t, idhex(m["id"]), ",".join(a.script() for a in m["values"]),
            ",".join("%s@%s" % (idhex(i), a.script()) for i, a in m["nodes"]),
            ",".join("%s@%s" % (idhex(i), a.script()) for i, a in m["nodes6"]),
            "-" if m["token"] is None else m["token"].hex())
    if k == "e":
        return "t=%s e code=%d text=%s" % (t, m["code"], m["text"].hex())
    raise Broken("bad message kind " + k)


def parse_canon(line):
    parts = line.split()
    f = {}
    flags = set()
    for p in parts:
        if "=" in p:
            a, b = p.split("=", 1)
            f[a] = b
        else:
            flags.add(p)
    t = bytes.fromhex(f["t"])
    if "q" in f:
        k = f["q"]
        m = {"t": t, "k": k, "id": int(f["id"], 16)}
        if k == "find_node":
            m["target"] = int(f["target"], 16)
            m["want"] = None if f["want"] == "-" else f["want"]
        elif k == "get_peers":
            m["ih"] = int(f["ih"], 16)
            m["want"] = None if f["want"] == "-" else f["want"]
        elif k == "announce_peer":
            m["ih"] = int(f["ih"], 16)
            m["port"] = None if f["port"] == "-" else int(f["port"])
            m["token"] = bytes.fromhex(f["token"])
        return m
    if "r" in flags:
        def nodes(s):
            out = []
            for x in s.split(","):
                if x:
                    i, a = x.split("@")
                    out.append((int(i, 16), comp.Addr.parse(a)))
            return out
        return {"t": t, "k": "r", "id": int(f["id"], 16),
                "values": [comp.Addr.parse(x) for x in f["values"].split(",") if x],
                "nodes": nodes(f["nodes"]), "nodes6": nodes(f["nodes6"]),
                "token": None if f["token"] == "-" else bytes.fromhex(f["token"])}
    if "e" in flags:
        return {"t": t, "k": "e", "code": int(f["code"]), "text": bytes.fromhex(f["text"])}
    raise Broken("cannot parse canonical message: " + line[:200])


def coq_bool(b):
    return "true" if b else "false"


def coq_ints(b):
    """bytes -> Coq list of primitive-int literals, 7 bytes each, last one zero-padded on the right"""
    out = []
    for i in range(0, len(b), 7):
        c = b[i:i + 7]
        c = c + b"\x00" * (7 - len(c))
        out.append(str(int.from_bytes(c, "big")))
    return "[" + ";".join(out) + "]"


def coq_bz(b):
    return "(bz %d %s)" % (len(b), coq_ints(b))


def coq_id(x):
    return coq_ints(x.to_bytes(20, "big"))


def coq_want(w):
    return {None: "None", "n4": "(Some WantV4)", "n6": "(Some WantV6)", "both": "(Some WantBoth)"}[w]


def coq_addr(a):
    if a.v6:
        return "(a6 %s %d)" % (coq_ints(a.ip.to_bytes(16, "big")), a.port)
    return "(a4 %d %d)" % (a.ip, a.port)


def coq_node(n):
    i, a = n
    return "(nd %s %s)" % (coq_id(i), coq_addr(a))


def coq_list(items):
    return "[" + "; ".join(items) + "]"


def coq_msg(m):
    t = coq_bz(m["t"])
    k = m["k"]
    if k == "ping":
        return "(mQ %s (qP %s))" % (t, coq_id(m["id"]))
    if k == "find_node":
        return "(mQ %s (qF %s %s %s))" % (t, coq_id(m["id"]), coq_id(m["target"]), coq_want(m["want"]))
    if k == "get_peers":
        return "(mQ %s (qG %s %s %s))" % (t, coq_id(m["id"]), coq_id(m["ih"]), coq_want(m["want"]))
    if k == "announce_peer":
        return "(mQ %s (qA %s %s %s %s))" % (t, coq_id(m["id"]), coq_id(m["ih"]),
                                              "None" if m["port"] is None else "(Some %d)" % m["port"], coq_bz(m["token"]))
    if k == "r":
        return "(mR %s %s %s %s %s %s)" % (
            t, coq_id(m["id"]), coq_list(coq_addr(a) for a in m["values"]), coq_list(coq_node(n) for n in m["nodes"]),
            coq_list(coq_node(n) for n in m["nodes6"]),
            "None" if m["token"] is None else "(Some %s)" % coq_bz(m["token"]))
    if k == "e":
        return "(mE %s %d %s)" % (t, m["code"], coq_bz(m["text"]))
    raise Broken("bad message kind " + k)


def coq_opt_msg(m):
    return "None" if m is None else "(Some %s)" % coq_msg(m)


def coq_opt_bz(b):
    return "None" if b is None else "(Some %s)" % coq_bz(b)


COQ_HEADER = ("From Coq Require Import Uint63.\nFrom BT Require Import model.Prelude model.Krpc run.Run_Krpc.\n"
              "Open Scope uint63_scope.\n")


# --------------------------------------------------------------------------
# harness access
class Dec:
    __slots__ = ("status", "peak", "msg", "canon", "reenc")

    def __init__(self, status, peak, canon, reenc):
        self.status, self.peak, self.canon = status, peak, canon
        self.msg = parse_canon(canon) if status == "OK" else None
        self.reenc = None if reenc in ("", "ENCERR", "ENCPANIC") else reenc


def run_decode(inputs, batch=2000, timeout=1500):
    """inputs: list of bytes. Supervised decoding by the real crate; one Dec per input."""
    if not inputs:
        return []
    text = "\n".join(b.hex() for b in inputs) + "\n"
    code, out, err = vlib.harness(["codec", "decode", str(batch)], text, timeout=timeout)
    if code != 0:
        raise Broken("harness codec decode failed (%d): %s" % (code, err[-800:]))
    lines = out.split("\n")
    if lines and lines[-1] == "":
        lines.pop()
    if len(lines) != len(inputs):
        raise Broken("harness codec decode: %d inputs, %d output lines" % (len(inputs), len(lines)))
    res = []
    for l in lines:
        p = l.split("\t")
        while len(p) < 4:
            p.append("")
        res.append(Dec(p[0], int(p[1] or 0), p[2], p[3]))
    return res


def run_encode(msgs, timeout=900):
    """msgs: list of message dicts. Returns list of hex strings or None (encode error)."""
    if not msgs:
        return []
    text = "\n".join(render(m) for m in msgs) + "\n"
    code, out, err = vlib.harness(["codec", "encode"], text, timeout=timeout)
    if code != 0:
        raise Broken("harness codec encode failed (%d): %s" % (code, err[-800:]))
    lines = [l for l in out.split("\n") if l != ""]
    if len(lines) != len(msgs):
        raise Broken("harness codec encode: %d inputs, %d output lines" % (len(msgs), len(lines)))
    return [None if l == "ENCERR" else l for l in lines]


# --------------------------------------------------------------------------
# bencode trees in Python: int | bytes | list | Dict (ordered list of (key bytes, value))
class Dict:
    def __init__(self, items):
        self.items = list(items)


class Raw:
    """bytes spliced verbatim into an encoding (non-canonical integers, odd length prefixes, ...)"""

    def __init__(self, b):
        self.b = bytes(b)


def benc(v, sort=False):
    if isinstance(v, bool):
        raise Broken("bool in tree")
    if isinstance(v, Raw):
        return v.b
    if isinstance(v, int):
        return b"i%de" % v
    if isinstance(v, (bytes, bytearray)):
        return b"%d:" % len(v) + bytes(v)
    if isinstance(v, list):
        return b"l" + b"".join(benc(x, sort) for x in v) + b"e"
    if isinstance(v, Dict):
        items = sorted(v.items, key=lambda kv: kv[0]) if sort else v.items
        return b"d" + b"".join((k.b if isinstance(k, Raw) else benc(k)) + benc(x, sort) for k, x in items) + b"e"
    raise Broken("bad tree node %r" % (v,))


def enc_addr(a):
    return a.ip.to_bytes(16 if a.v6 else 4, "big") + a.port.to_bytes(2, "big")


def enc_id(x):
    return x.to_bytes(20, "big")


def tree_of(m):
    """the BEP 5 / BEP 32 dictionary of a message (written independently of the Coq spec)"""
    k = m["k"]
    t = m["t"]
    if k in ("ping", "find_node", "get_peers", "announce_peer"):
        a = [(b"id", enc_id(m["id"]))]
        if k == "find_node":
            a.append((b"target", enc_id(m["target"])))
        if k in ("get_peers", "announce_peer"):
            a.append((b"info_hash", enc_id(m["ih"])))
        if k in ("find_node", "get_peers") and m["want"]:
            a.append((b"want", {"n4": [b"n4"], "n6": [b"n6"], "both": [b"n4", b"n6"]}[m["want"]]))
        if k == "announce_peer":
            if m["port"] is None:
                a.append((b"implied_port", 1))
                a.append((b"port", 0))
            else:
                a.append((b"port", m["port"]))
            a.append((b"token", m["token"]))
        return Dict([(b"a", Dict(a)), (b"q", k.encode()), (b"t", t), (b"y", b"q")])
    if k == "r":
        r = [(b"id", enc_id(m["id"]))]
        if m["nodes"]:
            r.append((b"nodes", b"".join(enc_id(i) + enc_addr(a) for i, a in m["nodes"])))
        if m["nodes6"]:
            r.append((b"nodes6", b"".join(enc_id(i) + enc_addr(a) for i, a in m["nodes6"])))
        if m["token"] is not None:
            r.append((b"token", m["token"]))
        if m["values"]:
            r.append((b"values", [enc_addr(a) for a in m["values"]]))
        return Dict([(b"r", Dict(r)), (b"t", t), (b"y", b"r")])
    if k == "e":
        return Dict([(b"e", [m["code"], m["text"]]), (b"t", t), (b"y", b"e")])
    raise Broken("bad message kind " + k)


def msg_wf(m):
    if m["k"] != "r":
        return True
    return all(not a.v6 for _, a in m["nodes"]) and all(a.v6 for _, a in m["nodes6"])


def msg_key(m):
    return render(m)


# --------------------------------------------------------------------------
# random messages over the whole field space
def rand_tid(rng):
    r = rng.below(10)
    if r == 0:
        n = 0
    elif r < 5:
        n = rng.choice([1, 2, 4, 8])
    else:
        n = rng.range(0, 32)
    b = rng.bytes(n)
    if n and rng.chance(1, 6):
        b = rng.choice([b"\x00", b"\xff", b"e", b"d", b"l", b"i", b":", b"0"]) * n
    return b


def rand_id(rng):
    r = rng.below(12)
    if r == 0:
        return 0
    if r == 1:
        return (1 << 160) - 1
    if r == 2:
        return rng.below(256)
    if r == 3:
        return int.from_bytes(rng.choice([b"e", b"d", b"l", b"i", b"1", b":"]) * 20, "big")
    return comp.rand_id(rng)


def rand_addr(rng, v6=None):
    a = comp.rand_addr(rng, v6)
    r = rng.below(10)
    if r == 0:
        a.port = 0
    elif r == 1:
        a.port = 65535
    if rng.chance(1, 12):
        a.ip = 0
    elif rng.chance(1, 12):
        a.ip = (1 << (128 if a.v6 else 32)) - 1
    elif a.v6 and rng.chance(1, 6):
        # special-form IPv6 addresses: IPv4-mapped ::ffff:a.b.c.d, IPv4-compatible ::a.b.c.d, loopback, link-local
        r = rng.below(4)
        if r == 0:
            a.ip = (0xFFFF << 32) | rng.below(1 << 32)
        elif r == 1:
            a.ip = rng.below(1 << 32)
        elif r == 2:
            a.ip = 1
        else:
            a.ip = (0xFE80 << 112) | rng.below(1 << 64)
    return a


def rand_token(rng):
    r = rng.below(8)
    if r == 0:
        return b""
    if r < 4:
        return rng.bytes(rng.choice([4, 8, 20]))
    if r == 4:
        return rng.bytes(rng.range(21, 300))
    return rng.bytes(rng.range(1, 40))


UTF8_SAMPLES = ["", "A Generic Error Ocurred", "Server Error", "Protocol Error", "Method Unknown",
                "éè", "中文", "\U0001F600 ok", " n4 ", " x　", "\x00\x7f", "e", "0:", "i1e", "le"]


def rand_text(rng):
    r = rng.below(6)
    if r < 3:
        return rng.choice(UTF8_SAMPLES).encode("utf-8")
    out = []
    for _ in range(rng.range(0, 40)):
        k = rng.below(10)
        if k < 5:
            out.append(chr(rng.range(0, 127)))
        elif k < 7:
            out.append(chr(rng.range(0x80, 0x7ff)))
        elif k < 9:
            c = rng.range(0x800, 0xffff)
            if 0xd800 <= c <= 0xdfff:
                c = 0xfffd
            out.append(chr(c))
        else:
            out.append(chr(rng.range(0x10000, 0x10ffff)))
    return "".join(out).encode("utf-8")


def rand_count(rng, hi):
    r = rng.below(10)
    if r < 3:
        return 0
    if r < 6:
        return rng.range(1, 3)
    if r < 9:
        return rng.range(1, min(hi, 16))
    return rng.range(1, hi)


def rand_msg(rng, kind=None, wrong_family=False):
    kind = kind or rng.choice(["ping", "find_node", "get_peers", "announce_peer", "r", "r", "r", "e"])
    m = {"t": rand_tid(rng), "k": kind}
    if kind == "e":
        m["code"] = rng.choice([201, 202, 203, 204, 0, 255, rng.range(0, 255)])
        m["text"] = rand_text(rng)
        return m
    m["id"] = rand_id(rng)
    if kind == "find_node":
        m["target"] = rand_id(rng)
        m["want"] = rng.choice([None, None, "n4", "n6", "both"])
    elif kind == "get_peers":
        m["ih"] = rand_id(rng)
        m["want"] = rng.choice([None, None, "n4", "n6", "both"])
    elif kind == "announce_peer":
        m["ih"] = rand_id(rng)
        m["port"] = rng.choice([None, None, 0, 1, 6881, 65535, rng.range(0, 65535)])
        m["token"] = rand_token(rng)
    elif kind == "r":
        nv = rand_count(rng, 60)
        mix = rng.below(3)
        m["values"] = [rand_addr(rng, None if mix == 2 else bool(mix)) for _ in range(nv)]
        m["nodes"] = [(rand_id(rng), rand_addr(rng, False)) for _ in range(rand_count(rng, 50))]
        m["nodes6"] = [(rand_id(rng), rand_addr(rng, True)) for _ in range(rand_count(rng, 50))]
        m["token"] = None if rng.chance(1, 2) else rand_token(rng)
        if wrong_family:
            which = rng.choice(["nodes", "nodes6"])
            l = m[which] or [(rand_id(rng), rand_addr(rng, which == "nodes6"))]
            j = rng.below(len(l))
            l[j] = (l[j][0], rand_addr(rng, which == "nodes"))
            m[which] = l
    return m


# --------------------------------------------------------------------------
# key-permuted / unknown-key-extended re-encodings of a message tree
UNKNOWN_KEYS = [b"v", b"ip", b"ro", b"noseed", b"scrape", b"name", b"p", b"seed", b"nodes2", b"", b"zz", b"A",
                b"idx", b"\xc3\xa9", b"\xe4\xb8\xad"]
RESERVED = {b"id", b"target", b"info_hash", b"want", b"port", b"implied_port", b"token", b"values",
            b"nodes", b"nodes6", b"t", b"y", b"q", b"a", b"r", b"e"}
MAX_DEPTH = 32


def is_utf8(b):
    try:
        b.decode("utf-8")
        return True
    except UnicodeDecodeError:
        return False


def rand_tree(rng, depth):
    """arbitrary bencode value of nesting depth <= depth (0 = scalar)"""
    r = rng.below(10)
    if depth <= 0 or r < 4:
        if rng.chance(1, 2):
            return rng.choice([0, 1, -1, 2**63 - 1, -(2**63), rng.range(0, 10**6)])
        return rng.bytes(rng.range(0, 12))
    if r < 7:
        return [rand_tree(rng, depth - 1) for _ in range(rng.range(0, 4))]
    return Dict([(rng.bytes(rng.range(0, 6)), rand_tree(rng, depth - 1)) for _ in range(rng.range(0, 3))])


def nest(depth, leaf=None):
    """a value of nesting depth exactly `depth` (lists)"""
    v = leaf if leaf is not None else b"x"
    for _ in range(depth):
        v = [v]
    return v


def extend_dict(rng, d, level, buffered):
    """permute the entries of one dictionary of a message tree and insert unknown-key entries.
    level: nesting depth of this dictionary (1 = top).  Keys unknown to BEP 5/32 only: a stray key
    that is known to a sibling variant (e.g. `target` in a get_peers) selects that variant in the
    code -- the documented untagged-enum behaviour -- and is therefore never inserted.  Keys are
    UTF-8 in the streamed dictionaries (top level, `r`), arbitrary strings in the buffered `a`.
    Values of unknown keys are arbitrary bencode nested so that the whole datagram stays within
    MAX_DEPTH container levels (what precheck accepts)."""
    items = list(d.items)
    present = set(k for k, _ in items)
    for _ in range(rng.choice([0, 0, 1, 1, 2, 3, 6])):
        k = rng.choice(UNKNOWN_KEYS) if rng.chance(2, 3) else rng.bytes(rng.range(1, 8))
        if k in RESERVED or k in present:
            continue
        if not buffered and not is_utf8(k):
            continue
        room = MAX_DEPTH - level
        r = rng.below(8)
        if r == 0:
            v = nest(room)
        elif r == 1:
            v = nest(rng.range(1, room))
        else:
            v = rand_tree(rng, min(room, rng.choice([0, 0, 1, 2, 4])))
        items.append((k, v))
        present.add(k)
    rng.shuffle(items)
    return Dict(items)


def variant_of(rng, m):
    """one re-serialisation of m's tree: entries permuted and unknown keys inserted at every level"""
    top = tree_of(m)
    items = []
    for k, v in top.items:
        if k in (b"a", b"r") and isinstance(v, Dict):
            v = extend_dict(rng, v, 2, buffered=(k == b"a"))
        items.append((k, v))
    return benc(extend_dict(rng, Dict(items), 1, buffered=False))


# --------------------------------------------------------------------------
# inputs the property says must be rejected
def reject_cases(rng, n):
    """(class, bytes): q/a mismatch, ids that are not 20 bytes, node strings whose length is not a
    multiple of 26/38, peer strings that are not 6/18 bytes"""
    out = []
    for i in range(n):
        r = rng.fork("rej%d" % i)
        cls = r.choice(["qa-mismatch", "id-len", "nodes-len", "peer-len"])
        if cls == "qa-mismatch":
            m = rand_msg(r, r.choice(["ping", "find_node", "get_peers", "announce_peer"]))
            t = tree_of(m)
            # a method whose argument shape differs.  (find_node args also fit ping by design of the
            # untagged enum: FindNode is tried first, so q=ping + find_node args is a mismatch too.)
            others = [x for x in ["ping", "find_node", "get_peers", "announce_peer"] if x != m["k"]]
            q = r.choice(others)
            t = Dict([(k, (q.encode() if k == b"q" else v)) for k, v in t.items])
            out.append((cls, benc(t)))
        elif cls == "id-len":
            m = rand_msg(r)
            while m["k"] == "e":
                m = rand_msg(r)
            t = tree_of(m)
            L = r.choice([0, 1, 19, 21, 40, r.range(0, 60)])
            if L == 20:
                L = 19
            sub = b"a" if m["k"] != "r" else b"r"
            fields = [b"id"]
            if m["k"] == "find_node":
                fields.append(b"target")
            if m["k"] in ("get_peers", "announce_peer"):
                fields.append(b"info_hash")
            fk = r.choice(fields)
            t = Dict([(k, (Dict([(k2, (r.bytes(L) if k2 == fk else v2)) for k2, v2 in v.items]) if k == sub else v))
                      for k, v in t.items])
            out.append((cls, benc(t)))
        elif cls == "nodes-len":
            m = rand_msg(r, "r")
            which = r.choice(["nodes", "nodes6"])
            unit = 26 if which == "nodes" else 38
            L = r.range(0, 8) * unit + r.range(1, unit - 1)
            t = tree_of(m)
            ritems = [(k2, v2) for k2, v2 in dict_get(t, b"r").items if k2 != which.encode()]
            ritems.append((which.encode(), r.bytes(L)))
            t = Dict([(k, (Dict(sorted(ritems)) if k == b"r" else v)) for k, v in t.items])
            out.append((cls, benc(t)))
        else:
            m = rand_msg(r, "r")
            L = r.choice([0, 1, 5, 7, 17, 19, 12, 36, r.range(0, 40)])
            if L in (6, 18):
                L += 1
            vals = [enc_addr(a) for a in m["values"]]
            vals.insert(r.below(len(vals) + 1), r.bytes(L))
            t = tree_of(m)
            ritems = [(k2, v2) for k2, v2 in dict_get(t, b"r").items if k2 != b"values"]
            ritems.append((b"values", vals))
            t = Dict([(k, (Dict(sorted(ritems, key=lambda kv: kv[0])) if k == b"r" else v)) for k, v in t.items])
            out.append((cls, benc(t)))
    return out


def dict_get(d, key):
    for k, v in d.items:
        if k == key:
            return v
    return None


# --------------------------------------------------------------------------
# the malformed stream
INT_TEXTS = [b"0", b"1", b"-1", b"255", b"256", b"65535", b"65536", b"-0", b"+5", b"007", b"", b"-", b"+", b" 5", b"5 ",
             b"9223372036854775807", b"9223372036854775808", b"-9223372036854775808", b"-9223372036854775809",
             b"18446744073709551615", b"18446744073709551616", b"1e3", b"0x10", b"\xff", b"12a", b"--1",
             b"340282366920938463463374607431768211456"]


def len_prefixes(remaining):
    out = [b"%d" % (10 ** k) for k in range(0, 26)]
    out += [b"%d" % x for x in (2**31 - 1, 2**31, 2**32 - 1, 2**32, 2**63 - 1, 2**63, 2**64 - 1, 2**64, 2**64 + 1,
                                2**65, 2**128, 99999999999, remaining, remaining + 1, max(0, remaining - 1))]
    out += [b"020", b"00", b"0", b"+20", b"2 0", b"20 ", b"-1", b"1-", b"2\xff", b"0000000000000000000000000000001"]
    return out


def tree_paths(v, path=()):
    """all positions (paths) in a tree: values and dictionary keys"""
    yield path
    if isinstance(v, list):
        for i, x in enumerate(v):
            yield from tree_paths(x, path + (i,))
    elif isinstance(v, Dict):
        for i, (k, x) in enumerate(v.items):
            yield path + (("k", i),)
            yield from tree_paths(x, path + (("v", i),))


def tree_replace(v, path, f):
    if not path:
        return f(v)
    h = path[0]
    if isinstance(v, list):
        return [tree_replace(x, path[1:], f) if i == h else x for i, x in enumerate(v)]
    kind, idx = h
    items = []
    for i, (k, x) in enumerate(v.items):
        if i == idx:
            if kind == "k":
                items.append((f(k), x))
            else:
                items.append((k, tree_replace(x, path[1:], f)))
        else:
            items.append((k, x))
    return Dict(items)


def other_type(rng, v):
    """a value of a different bencode type (or the same bytes as a list of integers)"""
    choices = []
    if not isinstance(v, int):
        choices.append(lambda: rng.choice([0, 1, -1, 255, 256, 65535, 65536, 2**63 - 1, -(2**63)]))
    if not isinstance(v, (bytes, bytearray)):
        choices.append(lambda: rng.choice([b"", b"x", rng.bytes(20), rng.bytes(6), b"n4", b"q", b"ping"]))
    if not isinstance(v, list):
        choices.append(lambda: rng.choice([[], [b"n4"], [1, 2], [[[]]], [rng.bytes(6)]]))
    if not isinstance(v, Dict):
        choices.append(lambda: rng.choice([Dict([]), Dict([(b"id", rng.bytes(20))]), Dict([(b"q", b"x")]), Dict([(b"r", 1)])]))
    if isinstance(v, (bytes, bytearray)):
        choices.append(lambda: [int(c) for c in v])                       # serde_bytes seq form (accepted)
        choices.append(lambda: [int(c) for c in v[:-1]] + [256] if v else [b""])
    return rng.choice(choices)()


STRUCT_ORDER = {
    "top": [b"t", b"y", b"q", b"a", b"r", b"e"],
    "r": [b"id", b"values", b"nodes", b"nodes6", b"token"],
    "find_node": [b"id", b"target", b"want"],
    "get_peers": [b"id", b"info_hash", b"want"],
    "ping": [b"id"],
    "announce_peer": [b"id", b"info_hash", b"port", b"token"],
}


def as_list(d, order, rng, fill):
    """struct-from-list form of a dictionary: values in declaration order"""
    out = []
    for k in order:
        v = dict_get(d, k)
        if v is None:
            if not fill:
                break
            v = fill(k)
        out.append(v)
    r = rng.below(6)
    if r == 0 and out:
        out.pop()
    elif r == 1:
        out.append(rng.choice([b"", 0, [], b"extra"]))
    return out


def malformed_from(rng, m):
    """one structure-aware mutation of a valid message; returns (class, bytes)"""
    tree = tree_of(m)
    paths = list(tree_paths(tree))
    cls = rng.choice(["type-swap", "type-swap", "dup-key", "drop-key", "rename-key", "enum-as-dict", "struct-as-list",
                      "int-text", "len-prefix", "len-prefix", "id-len", "want", "method", "error-shape", "non-utf8",
                      "trailing", "byte-flip", "byte-insert", "byte-delete", "splice", "nonstring-key", "list-desync"])
    if cls == "list-desync":
        # a struct given as a SHORT list: serde's visit_seq keeps asking for the defaulted fields after the list's
        # `e`, i.e. the library reads on behind the enclosing container -- followed by tokens that a scan of
        # only the first top-level value never sees
        idb = b"20:" + rng.bytes(20)
        k = rng.below(4)
        elems = [idb, b"le", b"0:", b"0:"][:k + 1]
        tail = rng.choice([b"99999999999:", b"0:0:99999999999:", b"0:0:1:x" + b"l" * 200 + b"e" * 200,
                           b"0:1500:", b"l" * 100, b"0:0:1:t2:aa1:y1:re", b"18446744073709551615:", b"i1e"])
        closers = b"e" * rng.range(1, 3)
        pre = rng.choice([b"d1:rl", b"d1:t2:aa1:y1:r1:rl", b"l2:aa1:r4:pingd2:id" + idb + b"el"])
        return cls, pre + b"".join(elems) + closers + tail + rng.choice([b"", b"e", b"1:t2:aa1:y1:re"])
    if cls == "type-swap":
        p = rng.choice(paths)
        return cls, benc(tree_replace(tree, p, lambda v: other_type(rng, v)))
    if cls in ("dup-key", "drop-key", "rename-key", "nonstring-key"):
        dpaths = [p for p in paths if isinstance(get_path(tree, p), Dict)]
        p = rng.choice(dpaths)

        def f(d):
            items = list(d.items)
            if not items:
                return d
            i = rng.below(len(items))
            k, v = items[i]
            if cls == "dup-key":
                j = rng.below(len(items) + 1)
                items.insert(j, (k, v if rng.chance(1, 2) else other_type(rng, v)))
            elif cls == "drop-key":
                items.pop(i)
            elif cls == "rename-key":
                items[i] = (rng.choice([b"", k + b"x", k[:-1], k.upper(), b"\xff" + k, rng.choice(UNKNOWN_KEYS), rng.choice(sorted(RESERVED))]), v)
            else:
                items.insert(rng.below(len(items) + 1),
                             (Raw(rng.choice([b"i5e", b"le", b"de", b"li1ee", b"d1:xi1ee", b"i-1e"])), rng.choice([0, b"", []])))
            return Dict(items)
        return cls, benc(tree_replace(tree, p, f))
    if cls == "enum-as-dict":
        key = rng.choice([b"y", b"q"])
        val = dict_get(tree, key) or rng.choice([b"q", b"r", b"e", b"ping"])
        form = rng.below(5)
        if form == 0:      # the quirk: d <variant> and nothing else; the rest of the message follows
            items = [(k, v) for k, v in tree.items if k != key]
            return cls, b"d" + b"".join(benc(k) + benc(v) for k, v in items[:rng.below(len(items) + 1)]) + benc(key) + b"d" + benc(val) + \
                b"".join(benc(k) + benc(v) for k, v in items[rng.below(len(items) + 1):]) + b"e" + rng.choice([b"", b"e"])
        repl = [Dict([(val, 0)]), Dict([(val, Dict([]))]), Dict([]), Dict([(b"zz", val)])][form - 1]
        return cls, benc(Dict([(k, (repl if k == key else v)) for k, v in tree.items] + ([] if dict_get(tree, key) else [(key, repl)])))
    if cls == "struct-as-list":
        which = rng.choice(["top", "inner", "both"])
        t = tree
        if which in ("inner", "both"):
            items = []
            for k, v in t.items:
                if k in (b"a", b"r") and isinstance(v, Dict):
                    order = STRUCT_ORDER["r" if k == b"r" else m["k"]]
                    v = as_list(v, order, rng, None)
                items.append((k, v))
            t = Dict(items)
        if which in ("top", "both"):
            def fill(k):
                return {b"q": b"ping", b"a": Dict([(b"id", rng.bytes(20))]), b"r": Dict([(b"id", rng.bytes(20))]),
                        b"e": [201, b"x"]}[k]
            return cls, benc(as_list(t, STRUCT_ORDER["top"], rng, fill if rng.chance(3, 4) else None)) + rng.choice([b"", b"junk"])
        return cls, benc(t)
    if cls == "int-text":
        ipaths = [p for p in paths if isinstance(get_path(tree, p), int)]
        txt = rng.choice(INT_TEXTS)
        if ipaths and rng.chance(3, 4):
            p = rng.choice(ipaths)
            return cls, benc(tree_replace(tree, p, lambda v: Raw(b"i" + txt + b"e")))
        # put an integer where a port / implied_port / code could be
        p = rng.choice(paths)
        return cls, benc(tree_replace(tree, p, lambda v: Raw(b"i" + txt + b"e")))
    if cls == "len-prefix":
        spaths = [p for p in paths if isinstance(get_path(tree, p), (bytes, bytearray))]
        p = rng.choice(spaths)
        enc0 = benc(tree)

        def f(v):
            return Raw(b"\x00MARK\x00")
        marked = benc(tree_replace(tree, p, f))
        pos = marked.index(b"\x00MARK\x00")
        v = get_path(tree, p)
        rest = len(enc0) - pos - len(b"%d:" % len(v))
        pre = rng.choice(len_prefixes(rest))
        return cls, marked.replace(b"\x00MARK\x00", pre + b":" + bytes(v))
    if cls == "id-len":
        spaths = [p for p in paths if isinstance(get_path(tree, p), (bytes, bytearray)) and len(get_path(tree, p)) >= 6]
        if not spaths:
            return "type-swap", benc(tree_replace(tree, rng.choice(paths), lambda v: other_type(rng, v)))
        p = rng.choice(spaths)
        return cls, benc(tree_replace(tree, p, lambda v: rng.choice([v[:-1], v + b"\x00", v[1:], v + v, b""])))
    if cls == "want":
        wv = rng.choice([[b" n4 "], [b"N4", b"n6"], [b"n6", b"N4", b"n6"], [b"\tn4\n", b"\xc2\xa0n6\xe3\x80\x80"], [b"n5"], [],
                         [b"\xffn4"], [4], [[b"n4"]], b"n4", 4, Dict([]), [b"n4", 6], [b"n4", b"n4"], [b"n 4"],
                         [b"\xe2\x80\x8bn4"], [b"\xc2\x85n4\xe1\x9a\x80"]])
        items = []
        for k, v in tree.items:
            if k in (b"a", b"r") and isinstance(v, Dict):
                sub = [(k2, v2) for k2, v2 in v.items if k2 != b"want"]
                sub.insert(rng.below(len(sub) + 1), (b"want", wv))
                v = Dict(sub)
            items.append((k, v))
        return cls, benc(Dict(items))
    if cls == "method":
        q = rng.choice([b"ping", b"find_node", b"get_peers", b"announce_peer", b"vote", b"", b"PING", b"ping\x00", b"\xff"])
        items = [(k, v) for k, v in tree.items if k != b"q"]
        items.insert(rng.below(len(items) + 1), (b"q", q))
        return cls, benc(Dict(items))
    if cls == "error-shape":
        ev = rng.choice([[], [201], [201, b"x", 1], [201, b"x", [[]]], [b"x", 201], [256, b"x"], [-1, b"x"], [201, b"\xff"],
                         [201, 5], b"x", 201, Dict([(b"code", 201)]), [Raw(b"i007e"), b"x"], [255, b""], [0, b"\xf0\x9f\x98\x80"],
                         [201, b"\xed\xa0\x80"], [201, b"\xc0\x80"], [201, b"\xf4\x90\x80\x80"], [201, b"\xe2\x82"]])
        items = [(k, v) for k, v in tree.items if k != b"e"]
        items.insert(rng.below(len(items) + 1), (b"e", ev))
        if rng.chance(1, 2):
            items = [(k, (b"e" if k == b"y" else v)) for k, v in items]
        return cls, benc(Dict(items))
    if cls == "non-utf8":
        p = rng.choice([p for p in paths if isinstance(get_path(tree, p), (bytes, bytearray))])
        bad = rng.choice([b"\xff", b"\xc3\x28", b"\xe2\x28\xa1", b"\xf0\x28\x8c\xbc", b"\xc0\xaf", b"\xed\xa0\x80", b"\x80"])
        return cls, benc(tree_replace(tree, p, lambda v: bytes(v[:len(v) // 2]) + bad + bytes(v[len(v) // 2:])))
    enc0 = benc(tree)
    if cls == "trailing":
        return cls, enc0 + rng.choice([b"e", b"x", b"0:", b"99999999999:", b"l" * 50, enc0, rng.bytes(rng.range(1, 30)), b"i5e", b"d1:t"])
    if cls == "byte-flip":
        b = bytearray(enc0)
        for _ in range(rng.choice([1, 1, 2, 4])):
            i = rng.below(len(b))
            b[i] = rng.choice([b[i] ^ (1 << rng.below(8)), rng.below(256), ord(rng.choice("deli:0123456789-"))])
        return cls, bytes(b)
    if cls == "byte-insert":
        i = rng.below(len(enc0) + 1)
        return cls, enc0[:i] + rng.choice([b"e", b"l", b"d", b"i", b":", b"0", b"9", b"-", b"le", b"de", b"i1e", b"1:x", rng.bytes(1)]) + enc0[i:]
    if cls == "byte-delete":
        i = rng.below(len(enc0))
        return cls, enc0[:i] + enc0[i + rng.choice([1, 1, 2, 5]):]
    # splice: a random slice of another encoding inside this one
    other = benc(tree_of(rand_msg(rng)))
    i = rng.below(len(enc0) + 1)
    a = rng.below(len(other))
    return "splice", enc0[:i] + other[a:a + rng.range(1, 40)] + enc0[i:]


def get_path(v, path):
    for h in path:
        if isinstance(v, list):
            v = v[h]
        else:
            kind, idx = h
            v = v.items[idx][0] if kind == "k" else v.items[idx][1]
    return v


def nesting_cases(rng, n):
    """containers nested up to 1500 deep, closed and unclosed, in the positions where the library
    recurses: the value of an unknown key (top level, inside r), the buffered `a`, the top level itself"""
    out = []
    depths = [1, 2, 3, 29, 30, 31, 32, 33, 34, 35, 64, 100, 256, 700, 1000, 1400, 1480, 1500]
    idb = b"20:" + b"A" * 20
    for i in range(n):
        r = rng.fork("nest%d" % i)
        d = depths[i % len(depths)] if i < 4 * len(depths) else r.range(1, 1500)
        opener = r.choice([b"l", b"d1:x", b"l", b"ld1:x", b"d0:"])
        per = opener.count(b"l") + opener.count(b"d")
        k = max(1, d // per)
        closed = r.chance(1, 2)
        body = opener * k + (b"" if opener.endswith(b"l") else b"le")
        if closed:
            body += b"e" * (k * per)
        where = r.below(5)
        if where == 0:
            s = b"d1:x" + body + b"1:t2:aa1:y1:r1:rd2:id" + idb + b"ee"
        elif where == 1:
            s = b"d1:rd2:id" + idb + b"1:x" + body + b"e1:t2:aa1:y1:re"
        elif where == 2:
            s = b"d1:ad2:id" + idb + b"1:x" + body + b"e1:q4:ping1:t2:aa1:y1:qe"
        elif where == 3:
            s = body
        else:
            s = b"d1:a" + body + b"1:q4:ping1:t2:aa1:y1:qe"
        out.append(("nesting-%s-%d" % ("closed" if closed else "open", d), s[:3000]))
    return out


def truncations(b):
    return [b[:i] for i in range(len(b))]


def garbage(rng):
    r = rng.below(4)
    if r == 0:
        return rng.bytes(rng.range(0, 64))
    alphabet = b"deli:0123456789-e"
    n = rng.range(1, 80)
    return bytes(alphabet[rng.below(len(alphabet))] for _ in range(n))


# hand-written boundary cases and past findings; always run first
CORPUS = [
    b"d1:t99999999999:",                                                   # F-C14a (pinned tree)
    b"d1:x" + b"l" * 1480,                                                 # F-C14b (pinned tree)
    b"d1:rl20:AAAAAAAAAAAAAAAAAAAAee99999999999:",                         # bypass of the first repair (one-pass precheck)
    b"d1:rl20:AAAAAAAAAAAAAAAAAAAAee0:0:1:x" + b"l" * 700 + b"e" * 700 + b"1:t2:aa1:y1:re",
    b"d1:rl20:AAAAAAAAAAAAAAAAAAAAe0:0:0:1:t2:aa1:y1:re",                  # Response as a short list: defaults read on
    b"d1:t2:aa1:yd1:r1:rd2:id20:AAAAAAAAAAAAAAAAAAAAee",                   # enum-as-dict desync
    b"d1:tli97ei98ee1:y1:r1:rd2:id20:AAAAAAAAAAAAAAAAAAAAee",              # serde_bytes list-of-u8 form
    b"l2:aa1:q4:pingd2:id20:AAAAAAAAAAAAAAAAAAAAed2:id20:BBBBBBBBBBBBBBBBBBBBeli201e1:xee",   # struct-from-list
    b"d1:t18446744073709551616:aa", b"d1:t18446744073709551615:aa", b"d1:t020:AAAAAAAAAAAAAAAAAAAA1:y1:r1:rd2:id20:AAAAAAAAAAAAAAAAAAAAee",
    b"", b"e", b"d", b"l", b"de", b"le", b"i5e", b"0:", b"i", b"5", b"5:", b":", b"-",
    b"d1:x" + b"l" * 31 + b"e" * 31 + b"1:t2:aa1:y1:r1:rd2:id20:AAAAAAAAAAAAAAAAAAAAee",
    b"d1:x" + b"l" * 32 + b"e" * 32 + b"1:t2:aa1:y1:r1:rd2:id20:AAAAAAAAAAAAAAAAAAAAee",
    b"d1:rd2:id20:AAAAAAAAAAAAAAAAAAAA1:x" + b"l" * 30 + b"e" * 30 + b"e1:t2:aa1:y1:re",
    b"d1:rd2:id20:AAAAAAAAAAAAAAAAAAAA1:x" + b"l" * 31 + b"e" * 31 + b"e1:t2:aa1:y1:re",
]


# --------------------------------------------------------------------------
# evaluation of case lists inside Coq (sharded)
def eval_lists(prefix, ctor, typ, items, funcs, per_shard=250, timeout=1500):
    """items: list of Coq terms of record type `typ`; funcs: list of Coq functions `list typ -> X`.
    Returns one list per func with the per-shard parsed blocks: [(offset, block_string), ...]."""
    if not items:
        return [[] for _ in funcs]
    files = []
    offs = []
    for s, off in enumerate(range(0, len(items), per_shard)):
        part = items[off:off + per_shard]
        text = (COQ_HEADER + "Set Printing Width 1000000. Set Printing Depth 1000000.\n"
                + "Definition cs : list %s := [\n%s].\n" % (typ, ";\n".join(part))
                + "".join("Eval vm_compute in (%s cs).\n" % f for f in funcs))
        files.append((os.path.join(vlib.CACHE, "cases", "%s_%d.v" % (prefix, s)), text))
        offs.append(off)
    outs = vlib.coq_eval_files(files, timeout=timeout)
    res = [[] for _ in funcs]
    for (path, _), off, (code, out) in zip(files, offs, outs):
        if code != 0:
            raise Broken("coqc failed on %s: %s" % (path, out[-1500:]))
        blocks = vlib.parse_eval_blocks(out)
        if len(blocks) != len(funcs):
            raise Broken("coqc output of %s: expected %d blocks, got %d: %s" % (path, len(funcs), len(blocks), out[:600]))
        for j, b in enumerate(blocks):
            res[j].append((off, b))
    return res


def flagged(shard_blocks):
    """global indices from per-shard index lists"""
    out = []
    for off, b in shard_blocks:
        out.extend(off + i for i in vlib.parse_N_list(b))
    return out


def coq_reenc(inp, reenc_hex):
    if reenc_hex is None:
        return "ReNone"
    b = bytes.fromhex(reenc_hex)
    return "ReSame" if b == inp else "(ReBytes %s)" % coq_bz(b)


def dcase_term(inp, dec):
    return "Dc %s %s %s" % (coq_bz(inp), coq_opt_msg(dec.msg), coq_reenc(inp, dec.reenc))


def show_model(inputs):
    """model's view of a few inputs (debugging a disagreement): list of strings"""
    text = (COQ_HEADER + "Set Printing Width 1000000. Set Printing Depth 1000000.\n"
            + "".join("Eval vm_compute in (show_instr %s).\n" % coq_bz(b) for b in inputs))
    path = os.path.join(vlib.CACHE, "cases", "show_model.v")
    (code, out), = vlib.coq_eval_files([(path, text)])
    if code != 0:
        return ["<coqc failed: %s>" % out[-300:]] * len(inputs)
    return [b[:1500] for b in vlib.parse_eval_blocks(out)]


def ddmin(data, fails_batch):
    """delta debugging on a byte string; fails_batch(list of bytes) -> list of bool.  Candidates of one
    round are evaluated together (one harness call + one coqc per round)."""
    cur = bytes(data)
    chunk = max(1, len(cur) // 2)
    rounds = 0
    while chunk >= 1 and rounds < 40 and len(cur) > 1:
        rounds += 1
        cands = []
        for i in range(0, len(cur), chunk):
            c = cur[:i] + cur[i + chunk:]
            if c and c not in cands:
                cands.append(c)
        if not cands:
            break
        verdicts = fails_batch(cands)
        good = [c for c, v in zip(cands, verdicts) if v]
        if good:
            cur = min(good, key=len)
            chunk = min(chunk, max(1, len(cur) // 2))
        else:
            if chunk == 1:
                break
            chunk = max(1, chunk // 2)
    return cur
