#!/bin/sh
# Build the framework from files on disk only (offline). Idempotent.
set -e
cd "$(dirname "$0")"
export CARGO_NET_OFFLINE=true
python3 tools/gen_consts.py coq/gen/Consts.v
(cd coq && coq_makefile -f _CoqProject -o Makefile >/dev/null && timeout 3000 make -j16 >/dev/null)
[ -f harness/Cargo.lock ] || cp /repo/Cargo.lock harness/Cargo.lock 2>/dev/null || cp harness/Cargo.lock.seed harness/Cargo.lock
(cd harness && CARGO_TARGET_DIR="$(pwd)/../.cache/target" RUSTFLAGS="--cfg btdht_verif" timeout 3000 cargo build --offline 2>&1 | tail -2)
echo setup done
