//! Component runs: call the real types directly.
use std::io::{self, BufRead, Write};
use std::net::{IpAddr, Ipv4Addr, Ipv6Addr};

fn parse_ip(hexs: &str) -> Option<IpAddr> {
    let b = hex::decode(hexs).ok()?;
    match b.len() {
        4 => Some(IpAddr::V4(Ipv4Addr::new(b[0], b[1], b[2], b[3]))),
        16 => {
            let a: [u8; 16] = b.try_into().ok()?;
            Some(IpAddr::V6(Ipv6Addr::from(a)))
        }
        _ => None,
    }
}

/// stdin: one hex-encoded IP (8 or 32 hex digits) per line; stdout: `<ip> <id>` per line.
pub fn from_ip(_args: &[String]) -> i32 {
    let stdin = io::stdin();
    let stdout = io::stdout();
    let mut out = io::BufWriter::new(stdout.lock());
    for line in stdin.lock().lines() {
        let line = line.unwrap();
        let line = line.trim();
        if line.is_empty() {
            continue;
        }
        let ip = match parse_ip(line) {
            Some(ip) => ip,
            None => {
                eprintln!("bad ip {line}");
                return 2;
            }
        };
        let id = btdht::InfoHash::from_ip(ip);
        writeln!(out, "{} {}", line, hex::encode(id.as_ref())).unwrap();
    }
    0
}

/// `txn <B> <M_mid>`: exercise the real id generators at production block size.
/// Prints block summaries, selected raw blocks, distinctness of the first M message ids,
/// the minimal distance between equal message ids, and three blocks of action ids.
pub fn txn(args: &[String]) -> i32 {
    use btdht::verif::{AIDGenerator, TransactionID};
    let b: usize = args[0].parse().unwrap();
    let m: usize = args[1].parse().unwrap();
    let extra_blocks = 3usize;
    let total = m + extra_blocks * b;
    let stdout = io::stdout();
    let mut out = io::BufWriter::new(stdout.lock());

    let mut aidgen = AIDGenerator::new();
    let mut mid = aidgen.generate();
    let mut last_seen: Vec<u32> = vec![u32::MAX; 1 << 24];
    let mut len_ok = true;
    let mut aid0: Option<u64> = None;
    let mut aid_constant = true;
    let mut first_m_distinct = true;
    let mut first_repeat: Option<(usize, usize)> = None;
    let mut min_gap: Option<usize> = None;
    let nblocks_total = total / b;
    let dump: Vec<usize> = vec![0, 1, 2, m / b - 2, m / b - 1, m / b, m / b + 1];
    let mut block: Vec<u64> = Vec::with_capacity(b);
    let mut sample_tids: Vec<(u64, u64, Vec<u8>)> = Vec::new();
    for n in 0..total {
        let tid = mid.generate();
        let bytes = tid.as_ref();
        if bytes.len() != 8 {
            len_ok = false;
        }
        let mut w = [0u8; 8];
        w.copy_from_slice(&bytes[..8]);
        let v = u64::from_be_bytes(w);
        let aid = v >> 24;
        let mm = v & 0xff_ffff;
        if n < 4 || n == b || n == m - 1 || n == m {
            sample_tids.push((aid, mm, bytes.to_vec()));
        }
        match aid0 {
            None => aid0 = Some(aid),
            Some(a) => {
                if a != aid {
                    aid_constant = false;
                }
            }
        }
        let prev = last_seen[mm as usize];
        if prev != u32::MAX {
            let gap = n - prev as usize;
            if n < m {
                first_m_distinct = false;
            }
            if first_repeat.is_none() {
                first_repeat = Some((prev as usize, n));
            }
            min_gap = Some(min_gap.map_or(gap, |g| g.min(gap)));
        }
        last_seen[mm as usize] = n as u32;
        block.push(mm);
        if block.len() == b {
            let k = n / b;
            let mut s = block.clone();
            s.sort_unstable();
            let start = s[0];
            let ok = s.iter().enumerate().all(|(i, x)| *x == start + i as u64);
            writeln!(out, "sum {} {} {}", k, start, ok as u8).unwrap();
            if dump.contains(&k) {
                let hexs: String = block.iter().map(|x| format!("{:06x}", x)).collect();
                writeln!(out, "dump {} {}", k, hexs).unwrap();
            }
            block.clear();
        }
    }
    writeln!(out, "blocks {}", nblocks_total).unwrap();
    writeln!(out, "len_ok {}", len_ok as u8).unwrap();
    writeln!(out, "aid {:010x}", aid0.unwrap()).unwrap();
    writeln!(out, "aid_constant {}", aid_constant as u8).unwrap();
    writeln!(out, "first_m_distinct {}", first_m_distinct as u8).unwrap();
    if let Some((i, j)) = first_repeat {
        writeln!(out, "first_repeat {} {}", i, j).unwrap();
    }
    writeln!(out, "min_gap {}", min_gap.map_or(-1i64, |g| g as i64)).unwrap();
    for (a, mm, bytes) in sample_tids {
        writeln!(out, "tid {} {} {}", a, mm, hex::encode(&bytes)).unwrap();
        // from_bytes on every length 0..16 built from a real id (truncated / zero-extended): accepted?
        let mut acc = String::new();
        for n in 0..=16usize {
            let mut v: Vec<u8> = bytes.clone();
            v.resize(n, 0);
            acc.push(if TransactionID::from_bytes(&v).is_some() { '1' } else { '0' });
        }
        writeln!(out, "frombytes {}", acc).unwrap();
    }
    drop(last_seen);

    // action ids: 3 blocks + a few, one fresh AIDGenerator
    let mut aidgen = AIDGenerator::new();
    let mut ablock: Vec<u64> = Vec::new();
    let na = 3 * b + 5;
    let mut k = 0;
    for n in 0..na {
        let mut g = aidgen.generate();
        let tid = g.generate();
        let mut w = [0u8; 8];
        w.copy_from_slice(tid.as_ref());
        let v = u64::from_be_bytes(w);
        ablock.push(v >> 24);
        if ablock.len() == b || n == na - 1 {
            let hexs: String = ablock.iter().map(|x| format!("{:010x}", x)).collect();
            writeln!(out, "adump {} {}", k, hexs).unwrap();
            ablock.clear();
            k += 1;
        }
    }
    0
}

// ---------------------------------------------------------------------------
// script helpers
use std::net::SocketAddr;

pub fn parse_addr(s: &str) -> SocketAddr {
    // 4:<8 hex>:<port>  |  6:<32 hex>:<port>
    let p: Vec<&str> = s.split(':').collect();
    let ip = parse_ip(p[1]).expect("bad ip");
    let port: u16 = p[2].parse().expect("bad port");
    SocketAddr::new(ip, port)
}

pub fn fmt_addr(a: &SocketAddr) -> String {
    match a {
        SocketAddr::V4(v) => format!("4:{}:{}", hex::encode(v.ip().octets()), v.port()),
        SocketAddr::V6(v) => format!("6:{}:{}", hex::encode(v.ip().octets()), v.port()),
    }
}

pub fn parse_id(s: &str) -> btdht::InfoHash {
    let b = hex::decode(s).expect("bad id hex");
    btdht::InfoHash::try_from(&b[..]).expect("bad id len")
}

fn set_time(ns: &str) {
    btdht::verif::verif_clock::set_manual_ns(ns.parse().expect("bad time"));
}

/// `storage`: stdin script, cases separated by `RESET`:
///   A <t_ns> <ih> <addr>   -> `A 0|1`
///   F <t_ns> <ih>          -> `F <addr>,<addr>,...`
pub fn storage(_args: &[String]) -> i32 {
    use btdht::verif::AnnounceStorage;
    let stdin = io::stdin();
    let stdout = io::stdout();
    let mut out = io::BufWriter::new(stdout.lock());
    let mut st = AnnounceStorage::new();
    for line in stdin.lock().lines() {
        let line = line.unwrap();
        let p: Vec<&str> = line.split_whitespace().collect();
        if p.is_empty() {
            continue;
        }
        match p[0] {
            "RESET" => {
                st = AnnounceStorage::new();
                writeln!(out, "RESET").unwrap();
            }
            "A" => {
                set_time(p[1]);
                let ok = st.add_item(parse_id(p[2]), parse_addr(p[3]));
                writeln!(out, "A {}", ok as u8).unwrap();
            }
            "F" => {
                set_time(p[1]);
                let ih = parse_id(p[2]);
                let v: Vec<String> = st.find_items(&ih).map(|a| fmt_addr(&a)).collect();
                writeln!(out, "F {}", v.join(",")).unwrap();
            }
            other => {
                eprintln!("bad op {other}");
                return 2;
            }
        }
    }
    0
}

/// `token`: stdin script, cases separated by `RESET <t0_ns>` (store created at t0):
///   CO <t_ns> <ip>            -> `CO <token hex>`
///   CI <t_ns> <ip> <ref>      -> `CI 0|1`   (token returned by operation #ref of this case)
///   CR <t_ns> <ip> <kind> <ref> -> `CI 0|1` (kind: flip = token #ref with one bit flipped,
///                                 short/long = 19/21 bytes, zero = 20 zero bytes, swap = token #ref byte-reversed)
/// The checkin path mimics the handler: Token::new(bytes) must succeed, else refused.
pub fn token(_args: &[String]) -> i32 {
    use btdht::verif::{Token, TokenStore};
    let stdin = io::stdin();
    let stdout = io::stdout();
    let mut out = io::BufWriter::new(stdout.lock());
    let mut st: Option<TokenStore> = None;
    let mut toks: Vec<Option<Vec<u8>>> = Vec::new();
    for line in stdin.lock().lines() {
        let line = line.unwrap();
        let p: Vec<&str> = line.split_whitespace().collect();
        if p.is_empty() {
            continue;
        }
        match p[0] {
            "RESET" => {
                set_time(p[1]);
                st = Some(TokenStore::new());
                toks.clear();
                writeln!(out, "RESET").unwrap();
            }
            "CO" => {
                set_time(p[1]);
                let ip = parse_ip(p[2]).unwrap();
                let t = st.as_mut().unwrap().checkout(ip);
                let b = t.as_ref().to_vec();
                writeln!(out, "CO {}", hex::encode(&b)).unwrap();
                toks.push(Some(b));
            }
            "CI" | "CR" => {
                set_time(p[1]);
                let ip = parse_ip(p[2]).unwrap();
                let bytes: Vec<u8> = if p[0] == "CI" {
                    let r: usize = p[3].parse().unwrap();
                    toks[r].clone().expect("ref is not a checkout")
                } else {
                    let r: usize = p[4].parse().unwrap();
                    let base = toks.get(r).cloned().flatten().unwrap_or(vec![7u8; 20]);
                    match p[3] {
                        "flip" => {
                            let mut b = base;
                            b[3] ^= 0x10;
                            b
                        }
                        "short" => base[..19].to_vec(),
                        "long" => {
                            let mut b = base;
                            b.push(0);
                            b
                        }
                        "zero" => vec![0u8; 20],
                        "swap" => base.iter().rev().cloned().collect(),
                        _ => vec![],
                    }
                };
                let ok = match Token::new(&bytes) {
                    Ok(t) => st.as_mut().unwrap().checkin(ip, t),
                    Err(_) => false,
                };
                writeln!(out, "CI {}", ok as u8).unwrap();
                toks.push(None);
            }
            other => {
                eprintln!("bad op {other}");
                return 2;
            }
        }
    }
    0
}

/// `table`: stdin script, cases separated by `RESET`:
///   NEW <id>                          -> (no output) create RoutingTable
///   ROUTER <addr>                     -> `OK` add to router set
///   OFFER <t> G|Q <id> <addr>         -> `OK`
///   ADDNODES <t> <id> <addr> <named>  -> `OK`  named = comma separated id@addr (may be `-`)
///   LREQ <t> <id> <addr>              -> `L 0|1`  (1 = node found pingable)
///   RREQ <t> <id> <addr>              -> `R 0|1`
///   DUMP <t>                          -> `D <bucket>|<bucket>|...` bucket = slots `S<id>@<addr>` comma separated,
///                                        S in B(ad) Q G; bad slots print as `B`
///   CLOSEST <t> <target>              -> `C id@addr,...` in iterator order
///   CONTACTS <t>                      -> `K good_sorted;questionable_sorted`
pub fn table(_args: &[String]) -> i32 {
    use btdht::verif::{Node, NodeHandle, NodeStatus, RoutingTable};
    let stdin = io::stdin();
    let stdout = io::stdout();
    let mut out = io::BufWriter::new(stdout.lock());
    let mut tb: Option<RoutingTable> = None;
    fn st(s: NodeStatus) -> char {
        match s {
            NodeStatus::Bad => 'B',
            NodeStatus::Questionable => 'Q',
            NodeStatus::Good => 'G',
        }
    }
    for line in stdin.lock().lines() {
        let line = line.unwrap();
        let p: Vec<&str> = line.split_whitespace().collect();
        if p.is_empty() {
            continue;
        }
        match p[0] {
            "RESET" => {
                tb = None;
                writeln!(out, "RESET").unwrap();
            }
            "NEW" => {
                tb = Some(RoutingTable::new(parse_id(p[1])));
            }
            "ROUTER" => {
                tb.as_mut().unwrap().routers.insert(parse_addr(p[1]));
                writeln!(out, "OK").unwrap();
            }
            "OFFER" => {
                set_time(p[1]);
                let (id, a) = (parse_id(p[3]), parse_addr(p[4]));
                let n = if p[2] == "G" { Node::as_good(id, a) } else { Node::as_questionable(id, a) };
                tb.as_mut().unwrap().add_node(n);
                writeln!(out, "OK").unwrap();
            }
            "ADDNODES" => {
                set_time(p[1]);
                let n = Node::as_good(parse_id(p[2]), parse_addr(p[3]));
                let named: Vec<NodeHandle> = if p[4] == "-" {
                    vec![]
                } else {
                    p[4].split(',')
                        .map(|x| {
                            let (i, a) = x.split_once('@').unwrap();
                            NodeHandle::new(parse_id(i), parse_addr(a))
                        })
                        .collect()
                };
                tb.as_mut().unwrap().add_nodes(n, &named);
                writeln!(out, "OK").unwrap();
            }
            "LREQ" | "RREQ" => {
                set_time(p[1]);
                let h = NodeHandle::new(parse_id(p[2]), parse_addr(p[3]));
                let found = match tb.as_mut().unwrap().find_node_mut(&h) {
                    Some(n) => {
                        if p[0] == "LREQ" {
                            n.local_request()
                        } else {
                            n.remote_request()
                        }
                        1
                    }
                    None => 0,
                };
                writeln!(out, "{} {}", &p[0][..1], found).unwrap();
            }
            "DUMP" => {
                set_time(p[1]);
                let t = tb.as_ref().unwrap();
                let bs: Vec<String> = t
                    .buckets()
                    .map(|b| {
                        b.iter()
                            .map(|n| {
                                let s = n.status();
                                if s == NodeStatus::Bad {
                                    "B".to_string()
                                } else {
                                    format!("{}{}@{}", st(s), hex::encode(n.id().as_ref()), fmt_addr(&n.addr()))
                                }
                            })
                            .collect::<Vec<_>>()
                            .join(",")
                    })
                    .collect();
                writeln!(out, "D {}", bs.join("|")).unwrap();
            }
            "CLOSEST" => {
                set_time(p[1]);
                let t = tb.as_ref().unwrap();
                let v: Vec<String> = t
                    .closest_nodes(parse_id(p[2]))
                    .map(|n| format!("{}@{}", hex::encode(n.id().as_ref()), fmt_addr(&n.addr())))
                    .collect();
                writeln!(out, "C {}", v.join(",")).unwrap();
            }
            "CONTACTS" => {
                set_time(p[1]);
                let (g, q) = tb.as_ref().unwrap().load_contacts();
                let mut g: Vec<String> = g.iter().map(fmt_addr).collect();
                let mut q: Vec<String> = q.iter().map(fmt_addr).collect();
                g.sort();
                q.sort();
                writeln!(out, "K {};{}", g.join(","), q.join(",")).unwrap();
            }
            other => {
                eprintln!("bad op {other}");
                return 2;
            }
        }
    }
    0
}
