//! Component runs: call the real types directly.
use std::io::{self, BufRead, Write};
use std::net::{IpAddr, Ipv4Addr, Ipv6Addr};

fn parse_ip(hexs: &str) -> Option<IpAddr> {
    let b = hex::decode(hexs).ok()?;
    match b.len() {
        4 => Some(IpAddr::V4(Ipv4Addr::new(b[0], b[1], b[2], b[3]))),
        16 => {
            let a: [u8; 16] = b.try_into().ok()?;
            Some(IpAddr::V6(Ipv6Addr::from(a)))
        }
        _ => None,
    }
}

/// stdin: one hex-encoded IP (8 or 32 hex digits) per line; stdout: `<ip> <id>` per line.
pub fn from_ip(_args: &[String]) -> i32 {
    let stdin = io::stdin();
    let stdout = io::stdout();
    let mut out = io::BufWriter::new(stdout.lock());
    for line in stdin.lock().lines() {
        let line = line.unwrap();
        let line = line.trim();
        if line.is_empty() {
            continue;
        }
        let ip = match parse_ip(line) {
            Some(ip) => ip,
            None => {
                eprintln!("bad ip {line}");
                return 2;
            }
        };
        let id = btdht::InfoHash::from_ip(ip);
        writeln!(out, "{} {}", line, hex::encode(id.as_ref())).unwrap();
    }
    0
}
