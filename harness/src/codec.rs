//! KRPC codec runs (C13, C14): the public `Message::decode` / `Message::encode` of the real crate.
//!
//! `codec encode`     stdin: one canonical message description per line
//!                    stdout: hex of `Message::encode`, or `ENCERR`
//! `codec worker`     stdin: one hex datagram per line; each decode runs on a fresh thread with a
//!                    2 MiB stack (tokio's worker default) under catch_unwind, the process under an
//!                    address-space rlimit; stdout (flushed per line):
//!                    `OK|ERR|PANIC <TAB> max single allocation request <TAB> canonical message <TAB> re-encoding hex|ENCERR`
//! `codec decode`     same input; supervises `codec worker` children (re-exec of this binary) on
//!                    batches, so that a crash is observed, not suffered: when a child dies the
//!                    offending input is isolated by re-running it alone in a fresh child and is
//!                    reported as `ABORT` (SIGABRT: failed allocation, stack overflow as reported
//!                    by the Rust runtime) or `SIGNAL n` / `EXIT n`; the rest of the batch
//!                    continues in a new child.  Output: one line per input, same columns.
//!
//! Canonical message description (one line, space separated):
//!   t=<hex> q=ping id=<40 hex>
//!   t=<hex> q=find_node id=.. target=.. want=-|n4|n6|both
//!   t=<hex> q=get_peers id=.. ih=.. want=-|n4|n6|both
//!   t=<hex> q=announce_peer id=.. ih=.. port=-|<u16> token=<hex>
//!   t=<hex> r id=.. values=<addr,..> nodes=<id@addr,..> nodes6=<id@addr,..> token=-|<hex>
//!   t=<hex> e code=<u8> text=<hex of the UTF-8 text>
//! with addr = `4:<8 hex>:<port>` | `6:<32 hex>:<port>` (as in comp.rs).
use crate::comp::{fmt_addr, parse_addr, parse_id};
use btdht::message::{
    AnnouncePeerRequest, Error as KError, FindNodeRequest, GetPeersRequest, Message, MessageBody,
    PingRequest, Request, Response, Want,
};
use btdht::verif::NodeHandle;
use std::alloc::{GlobalAlloc, Layout, System};
use std::io::{self, BufRead, Read, Write};
use std::process::{Command, Stdio};
use std::sync::atomic::{AtomicUsize, Ordering};

// ---------------------------------------------------------------------------
// allocation meter: the largest single request seen since the last reset
static MAX_REQ: AtomicUsize = AtomicUsize::new(0);

pub struct Meter;

unsafe impl GlobalAlloc for Meter {
    unsafe fn alloc(&self, l: Layout) -> *mut u8 {
        MAX_REQ.fetch_max(l.size(), Ordering::Relaxed);
        System.alloc(l)
    }
    unsafe fn alloc_zeroed(&self, l: Layout) -> *mut u8 {
        MAX_REQ.fetch_max(l.size(), Ordering::Relaxed);
        System.alloc_zeroed(l)
    }
    unsafe fn dealloc(&self, p: *mut u8, l: Layout) {
        System.dealloc(p, l)
    }
    unsafe fn realloc(&self, p: *mut u8, l: Layout, n: usize) -> *mut u8 {
        MAX_REQ.fetch_max(n, Ordering::Relaxed);
        System.realloc(p, l, n)
    }
}

#[global_allocator]
static GLOBAL: Meter = Meter;

// ---------------------------------------------------------------------------
// canonical rendering
fn want_str(w: &Option<Want>) -> &'static str {
    match w {
        None => "-",
        Some(Want::V4) => "n4",
        Some(Want::V6) => "n6",
        Some(Want::Both) => "both",
    }
}

fn fmt_nodes(l: &[NodeHandle]) -> String {
    l.iter()
        .map(|n| format!("{}@{}", hex::encode(n.id.as_ref()), fmt_addr(&n.addr)))
        .collect::<Vec<_>>()
        .join(",")
}

pub fn render(m: &Message) -> String {
    let t = hex::encode(&m.transaction_id);
    match &m.body {
        MessageBody::Request(Request::Ping(r)) => {
            format!("t={} q=ping id={}", t, hex::encode(r.id.as_ref()))
        }
        MessageBody::Request(Request::FindNode(r)) => format!(
            "t={} q=find_node id={} target={} want={}",
            t,
            hex::encode(r.id.as_ref()),
            hex::encode(r.target.as_ref()),
            want_str(&r.want)
        ),
        MessageBody::Request(Request::GetPeers(r)) => format!(
            "t={} q=get_peers id={} ih={} want={}",
            t,
            hex::encode(r.id.as_ref()),
            hex::encode(r.info_hash.as_ref()),
            want_str(&r.want)
        ),
        MessageBody::Request(Request::AnnouncePeer(r)) => format!(
            "t={} q=announce_peer id={} ih={} port={} token={}",
            t,
            hex::encode(r.id.as_ref()),
            hex::encode(r.info_hash.as_ref()),
            r.port.map_or("-".to_string(), |p| p.to_string()),
            hex::encode(&r.token)
        ),
        MessageBody::Response(r) => format!(
            "t={} r id={} values={} nodes={} nodes6={} token={}",
            t,
            hex::encode(r.id.as_ref()),
            r.values.iter().map(fmt_addr).collect::<Vec<_>>().join(","),
            fmt_nodes(&r.nodes_v4),
            fmt_nodes(&r.nodes_v6),
            r.token.as_ref().map_or("-".to_string(), hex::encode)
        ),
        MessageBody::Error(e) => format!("t={} e code={} text={}", t, e.code, hex::encode(e.message.as_bytes())),
    }
}

fn field<'a>(parts: &'a [&'a str], key: &str) -> Result<&'a str, String> {
    let pre = format!("{key}=");
    parts
        .iter()
        .find_map(|p| p.strip_prefix(pre.as_str()))
        .ok_or_else(|| format!("missing field {key}"))
}

fn parse_want(s: &str) -> Result<Option<Want>, String> {
    Ok(match s {
        "-" => None,
        "n4" => Some(Want::V4),
        "n6" => Some(Want::V6),
        "both" => Some(Want::Both),
        o => return Err(format!("bad want {o}")),
    })
}

fn parse_nodes(s: &str) -> Vec<NodeHandle> {
    s.split(',')
        .filter(|x| !x.is_empty())
        .map(|x| {
            let (id, a) = x.split_once('@').expect("bad node");
            NodeHandle { id: parse_id(id), addr: parse_addr(a) }
        })
        .collect()
}

pub fn parse_msg(line: &str) -> Result<Message, String> {
    let parts: Vec<&str> = line.split_whitespace().collect();
    let tid = hex::decode(field(&parts, "t")?).map_err(|e| e.to_string())?;
    let body = if let Ok(q) = field(&parts, "q") {
        let id = parse_id(field(&parts, "id")?);
        MessageBody::Request(match q {
            "ping" => Request::Ping(PingRequest { id }),
            "find_node" => Request::FindNode(FindNodeRequest {
                id,
                target: parse_id(field(&parts, "target")?),
                want: parse_want(field(&parts, "want")?)?,
            }),
            "get_peers" => Request::GetPeers(GetPeersRequest {
                id,
                info_hash: parse_id(field(&parts, "ih")?),
                want: parse_want(field(&parts, "want")?)?,
            }),
            "announce_peer" => Request::AnnouncePeer(AnnouncePeerRequest {
                id,
                info_hash: parse_id(field(&parts, "ih")?),
                port: match field(&parts, "port")? {
                    "-" => None,
                    p => Some(p.parse::<u16>().map_err(|e| e.to_string())?),
                },
                token: hex::decode(field(&parts, "token")?).map_err(|e| e.to_string())?,
            }),
            o => return Err(format!("bad method {o}")),
        })
    } else if parts.contains(&"r") {
        MessageBody::Response(Response {
            id: parse_id(field(&parts, "id")?),
            values: field(&parts, "values")?
                .split(',')
                .filter(|x| !x.is_empty())
                .map(parse_addr)
                .collect(),
            nodes_v4: parse_nodes(field(&parts, "nodes")?),
            nodes_v6: parse_nodes(field(&parts, "nodes6")?),
            token: match field(&parts, "token")? {
                "-" => None,
                h => Some(hex::decode(h).map_err(|e| e.to_string())?),
            },
        })
    } else if parts.contains(&"e") {
        MessageBody::Error(KError {
            code: field(&parts, "code")?.parse::<u8>().map_err(|e| e.to_string())?,
            message: String::from_utf8(hex::decode(field(&parts, "text")?).map_err(|e| e.to_string())?)
                .map_err(|e| e.to_string())?,
        })
    } else {
        return Err("no body kind".to_string());
    };
    Ok(Message { transaction_id: tid, body })
}

// ---------------------------------------------------------------------------
fn encode_mode() -> i32 {
    let stdin = io::stdin();
    let stdout = io::stdout();
    let mut out = io::BufWriter::new(stdout.lock());
    for line in stdin.lock().lines() {
        let line = line.unwrap();
        if line.trim().is_empty() {
            continue;
        }
        match parse_msg(&line) {
            Ok(m) => match m.encode() {
                Ok(b) => writeln!(out, "{}", hex::encode(b)).unwrap(),
                Err(_) => writeln!(out, "ENCERR").unwrap(),
            },
            Err(e) => {
                eprintln!("bad message description `{line}`: {e}");
                return 2;
            }
        }
    }
    0
}

// ---------------------------------------------------------------------------
// worker
const STACK: usize = 2 * 1024 * 1024;
const AS_LIMIT: u64 = 1 << 30;

#[repr(C)]
struct RLimit {
    cur: u64,
    max: u64,
}
extern "C" {
    fn setrlimit(resource: i32, rlim: *const RLimit) -> i32;
}
const RLIMIT_AS: i32 = 9; // Linux

fn decode_one(bytes: Vec<u8>) -> String {
    let h = std::thread::Builder::new()
        .stack_size(STACK)
        .spawn(move || {
            MAX_REQ.store(0, Ordering::Relaxed);
            let r = std::panic::catch_unwind(|| Message::decode(&bytes));
            let peak = MAX_REQ.load(Ordering::Relaxed);
            match r {
                Err(_) => format!("PANIC\t{peak}\t\t"),
                Ok(Err(_)) => format!("ERR\t{peak}\t\t"),
                Ok(Ok(m)) => {
                    let re = match std::panic::catch_unwind(|| m.encode()) {
                        Ok(Ok(b)) => hex::encode(b),
                        Ok(Err(_)) => "ENCERR".to_string(),
                        Err(_) => "ENCPANIC".to_string(),
                    };
                    format!("OK\t{peak}\t{}\t{}", render(&m), re)
                }
            }
        })
        .expect("spawn");
    match h.join() {
        Ok(s) => s,
        Err(_) => "PANIC\t0\t\t".to_string(),
    }
}

fn worker_mode() -> i32 {
    #[cfg(target_os = "linux")]
    unsafe {
        let l = RLimit { cur: AS_LIMIT, max: AS_LIMIT };
        if setrlimit(RLIMIT_AS, &l) != 0 {
            eprintln!("setrlimit(RLIMIT_AS) failed");
            return 2;
        }
    }
    std::panic::set_hook(Box::new(|_| {}));
    let stdin = io::stdin();
    let stdout = io::stdout();
    let mut out = stdout.lock();
    for line in stdin.lock().lines() {
        let line = line.unwrap();
        let bytes = match hex::decode(line.trim()) {
            Ok(b) => b,
            Err(_) => {
                eprintln!("bad hex line");
                return 2;
            }
        };
        let s = decode_one(bytes);
        writeln!(out, "{s}").unwrap();
        out.flush().unwrap();
    }
    0
}

// ---------------------------------------------------------------------------
// supervisor
fn run_child(inputs: &[String]) -> (Vec<String>, String) {
    // returns the complete result lines and how the child ended ("" = clean exit)
    let exe = std::env::current_exe().expect("current_exe");
    let mut child = Command::new(exe)
        .args(["codec", "worker"])
        .stdin(Stdio::piped())
        .stdout(Stdio::piped())
        .stderr(Stdio::null())
        .spawn()
        .expect("spawn worker");
    let mut stdin = child.stdin.take().unwrap();
    let payload = inputs.join("\n") + "\n";
    let writer = std::thread::spawn(move || {
        let _ = stdin.write_all(payload.as_bytes());
    });
    let mut outs = String::new();
    child.stdout.take().unwrap().read_to_string(&mut outs).unwrap();
    let _ = writer.join();
    let status = child.wait().expect("wait");
    let mut lines: Vec<String> = outs.split('\n').map(|s| s.to_string()).collect();
    // the last piece is either empty (complete line before it) or a partial line
    lines.pop();
    use std::os::unix::process::ExitStatusExt;
    let end = if status.success() {
        String::new()
    } else if let Some(sig) = status.signal() {
        if sig == 6 {
            "ABORT".to_string()
        } else {
            format!("SIGNAL {sig}")
        }
    } else {
        format!("EXIT {}", status.code().unwrap_or(-1))
    };
    (lines, end)
}

fn supervise(batch: usize) -> i32 {
    let stdin = io::stdin();
    let inputs: Vec<String> = stdin
        .lock()
        .lines()
        .map(|l| l.unwrap().trim().to_string())
        .collect();
    let stdout = io::stdout();
    let mut out = io::BufWriter::new(stdout.lock());
    let mut i = 0;
    while i < inputs.len() {
        let hi = (i + batch).min(inputs.len());
        let (lines, end) = run_child(&inputs[i..hi]);
        for l in &lines {
            writeln!(out, "{l}").unwrap();
        }
        i += lines.len();
        if i < hi || !end.is_empty() {
            if i >= hi {
                eprintln!("worker ended with `{end}` after finishing its batch");
                return 2;
            }
            // the child died while processing input i: isolate it in a fresh child
            let (l1, e1) = run_child(&inputs[i..i + 1]);
            if l1.len() == 1 && e1.is_empty() {
                // not reproducible alone: report what killed the batch, flagged
                writeln!(out, "{}\t0\tnot-reproduced-alone:{}\t", if end.is_empty() { "EXIT 0" } else { &end }, l1[0].split('\t').next().unwrap_or("")).unwrap();
            } else {
                writeln!(out, "{}\t0\t\t", if e1.is_empty() { "EXIT 0" } else { &e1 }).unwrap();
            }
            i += 1;
        }
    }
    0
}

pub fn codec(args: &[String]) -> i32 {
    match args.first().map(|s| s.as_str()) {
        Some("encode") => encode_mode(),
        Some("worker") => worker_mode(),
        Some("decode") => {
            let batch = args.get(1).and_then(|s| s.parse().ok()).unwrap_or(2000);
            supervise(batch)
        }
        _ => {
            eprintln!("usage: codec encode|decode [batch]|worker");
            2
        }
    }
}
