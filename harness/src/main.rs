//! Correspondence harness: runs the real btdht code on scripted inputs and prints canonical
//! observation lines that tools/ compares with the Coq model.
mod codec;
mod comp;
mod net;

fn main() {
    let args: Vec<String> = std::env::args().collect();
    if args.len() < 2 {
        eprintln!("usage: harness <subcommand> [args]");
        std::process::exit(2);
    }
    let code = match args[1].as_str() {
        "sim" => net::sim(&args[2..]),
        "from_ip" => comp::from_ip(&args[2..]),
        "txn" => comp::txn(&args[2..]),
        "storage" => comp::storage(&args[2..]),
        "token" => comp::token(&args[2..]),
        "table" => comp::table(&args[2..]),
        "codec" => codec::codec(&args[2..]),
        other => {
            eprintln!("unknown subcommand {other}");
            2
        }
    };
    std::process::exit(code);
}
