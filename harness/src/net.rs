//! Node runs: real `MainlineDht` instances on a simulated network under tokio's paused clock.
//!
//! `sim` reads a scenario script on stdin (see `parse`), runs it in virtual time on a
//! current-thread runtime and prints ONE chronological log: the crate's own verification log
//! (hook H3) interleaved with the harness's events (WIRE / DELIVER / DROP / STREAM / API ...),
//! every line prefixed with the virtual time in ns.
use crate::codec::{parse_msg, render};
use crate::comp::{fmt_addr, parse_addr, parse_id};
use async_trait::async_trait;
use btdht::message::{Error as KError, Message, MessageBody, Request, Response};
use btdht::verif::verif_log;
use btdht::verif::NodeHandle;
use btdht::{InfoHash, MainlineDht, SocketTrait};
use futures_util::StreamExt;
use std::collections::HashMap;
use std::io::{self, Read};
use std::net::SocketAddr;
use std::sync::{Arc, Mutex};
use std::time::Duration;
use tokio::sync::mpsc;

type Inbox = mpsc::UnboundedSender<(Vec<u8>, SocketAddr)>;

fn rec(s: String) {
    verif_log::record(s);
}

fn now_ns() -> u64 {
    verif_log::now_ns() as u64
}

struct Rule {
    from: Option<SocketAddr>,
    to: Option<SocketAddr>,
    lo: u64,
    hi: u64,
}

struct HubInner {
    endpoints: HashMap<SocketAddr, Inbox>,
    rng: u64,
    lat_lo: u64,
    lat_hi: u64,
    rules: Vec<Rule>,
    outages: Vec<(SocketAddr, u64, u64)>,
    sendfail: Vec<(SocketAddr, u64, u64, u64)>,
    dup_permille: u64,
    loss_permille: u64,
    // last token seen in a response sent from .0 to .1
    last_token: HashMap<(SocketAddr, SocketAddr), Vec<u8>>,
    // responses delivered to an address: (from, bytes), oldest first (capped)
    resp_seen: HashMap<SocketAddr, Vec<(SocketAddr, Vec<u8>)>>,
}

pub struct Hub {
    inner: Mutex<HubInner>,
}

fn splitmix(s: &mut u64) -> u64 {
    *s = s.wrapping_add(0x9E3779B97F4A7C15);
    let mut z = *s;
    z = (z ^ (z >> 30)).wrapping_mul(0xBF58476D1CE4E5B9);
    z = (z ^ (z >> 27)).wrapping_mul(0x94D049BB133111EB);
    z ^ (z >> 31)
}

impl Hub {
    fn send(self: &Arc<Self>, from: SocketAddr, to: SocketAddr, data: Vec<u8>) -> io::Result<()> {
        let t = now_ns();
        let (fail, dropped, delays) = {
            let mut h = self.inner.lock().unwrap();
            let mut fail = false;
            for i in 0..h.sendfail.len() {
                let (a, t0, t1, pm) = h.sendfail[i];
                if a == from && t >= t0 && t < t1 {
                    let r = splitmix(&mut h.rng) % 1000;
                    if r < pm {
                        fail = true;
                    }
                }
            }
            let mut dropped = h
                .outages
                .iter()
                .any(|(a, t0, t1)| (*a == from || *a == to) && t >= *t0 && t < *t1);
            if !dropped && h.loss_permille > 0 && splitmix(&mut h.rng) % 1000 < h.loss_permille {
                dropped = true;
            }
            let (mut lo, mut hi) = (h.lat_lo, h.lat_hi);
            for r in &h.rules {
                if r.from.map_or(true, |a| a == from) && r.to.map_or(true, |a| a == to) {
                    lo = r.lo;
                    hi = r.hi;
                    break;
                }
            }
            let mut delays = vec![];
            let n = if h.dup_permille > 0 && splitmix(&mut h.rng) % 1000 < h.dup_permille { 2 } else { 1 };
            for _ in 0..n {
                let d = if hi > lo { lo + splitmix(&mut h.rng) % (hi - lo + 1) } else { lo };
                delays.push(d);
            }
            (fail, dropped, delays)
        };
        if fail {
            rec(format!("SENDFAIL {} {}", fmt_addr(&from), fmt_addr(&to)));
            return Err(io::Error::other("simulated send failure"));
        }
        let rendered = match Message::decode(&data) {
            Ok(m) => {
                if let MessageBody::Response(r) = &m.body {
                    let mut h = self.inner.lock().unwrap();
                    if let Some(tok) = &r.token {
                        h.last_token.insert((from, to), tok.clone());
                    }
                    let v = h.resp_seen.entry(to).or_default();
                    if v.len() < 64 {
                        v.push((from, data.clone()));
                    } else {
                        v.remove(32);
                        v.push((from, data.clone()));
                    }
                }
                render(&m)
            }
            Err(_) => "UNDECODABLE".to_string(),
        };
        rec(format!(
            "WIRE {} {} len={} {} | {}",
            fmt_addr(&from),
            fmt_addr(&to),
            data.len(),
            verif_log::hex(&data),
            rendered
        ));
        if dropped {
            rec(format!("DROP {} {}", fmt_addr(&from), fmt_addr(&to)));
            return Ok(());
        }
        for d in delays {
            let hub = self.clone();
            let data = data.clone();
            tokio::spawn(async move {
                tokio::time::sleep(Duration::from_nanos(d)).await;
                hub.deliver(from, to, data);
            });
        }
        Ok(())
    }

    fn deliver(&self, from: SocketAddr, to: SocketAddr, data: Vec<u8>) {
        let t = now_ns();
        let h = self.inner.lock().unwrap();
        let cut = h
            .outages
            .iter()
            .any(|(a, t0, t1)| (*a == from || *a == to) && t >= *t0 && t < *t1);
        if cut {
            rec(format!("DROP {} {}", fmt_addr(&from), fmt_addr(&to)));
            return;
        }
        match h.endpoints.get(&to) {
            Some(tx) => {
                rec(format!("DELIVER {} {} len={}", fmt_addr(&from), fmt_addr(&to), data.len()));
                let _ = tx.send((data, from));
            }
            None => rec(format!("NOENDPOINT {} {}", fmt_addr(&from), fmt_addr(&to))),
        }
    }

    fn register(&self, addr: SocketAddr) -> mpsc::UnboundedReceiver<(Vec<u8>, SocketAddr)> {
        let (tx, rx) = mpsc::unbounded_channel();
        self.inner.lock().unwrap().endpoints.insert(addr, tx);
        rx
    }
}

pub struct SimSocket {
    addr: SocketAddr,
    rx: tokio::sync::Mutex<mpsc::UnboundedReceiver<(Vec<u8>, SocketAddr)>>,
    hub: Arc<Hub>,
}

#[async_trait]
impl SocketTrait for SimSocket {
    async fn send_to(&self, buf: &[u8], target: &SocketAddr) -> io::Result<()> {
        self.hub.send(self.addr, *target, buf.to_vec())
    }

    async fn recv_from(&self, buf: &mut [u8]) -> io::Result<(usize, SocketAddr)> {
        let mut rx = self.rx.lock().await;
        match rx.recv().await {
            Some((data, from)) => {
                let n = data.len().min(buf.len());
                buf[..n].copy_from_slice(&data[..n]);
                Ok((n, from))
            }
            None => std::future::pending().await,
        }
    }

    fn local_addr(&self) -> io::Result<SocketAddr> {
        Ok(self.addr)
    }
}

// ---------------------------------------------------------------------------
// scripted responders: a minimal, honest DHT node with a scripted personality
#[derive(Clone, Copy, PartialEq)]
enum Mode {
    Normal,
    Silent,
    ErrorReply,
    Garbage,
    NoNodes,
    QueryOnlySilent, // answers nothing but is listed
}

struct World {
    nodes: Vec<(InfoHash, SocketAddr)>,
}

fn xor_dist(a: &InfoHash, b: &InfoHash) -> [u8; 20] {
    let x: [u8; 20] = (*a ^ *b).into();
    x
}

impl World {
    fn closest(&self, target: &InfoHash, v6: bool, k: usize) -> Vec<NodeHandle> {
        let mut v: Vec<&(InfoHash, SocketAddr)> = self.nodes.iter().filter(|(_, a)| a.is_ipv6() == v6).collect();
        v.sort_by_key(|(id, _)| xor_dist(id, target));
        v.into_iter().take(k).map(|(id, a)| NodeHandle::new(*id, *a)).collect()
    }
}

fn resp_token(me: &SocketAddr, src: &SocketAddr) -> Vec<u8> {
    // deterministic, bound to (responder, requester ip); any byte string is a legal token
    let mut t = b"tk".to_vec();
    t.extend(me.port().to_be_bytes());
    match src.ip() {
        std::net::IpAddr::V4(a) => t.extend(a.octets()),
        std::net::IpAddr::V6(a) => t.extend(a.octets()),
    }
    t
}

async fn responder(
    name: String,
    addr: SocketAddr,
    id: InfoHash,
    mode: Mode,
    hub: Arc<Hub>,
    world: Arc<Mutex<World>>,
    mut store: HashMap<InfoHash, Vec<SocketAddr>>,
    token_len: usize,
) {
    let mut rx = hub.register(addr);
    let mut garbage_seed: u64 = addr.port() as u64;
    while let Some((data, from)) = rx.recv().await {
        let msg = match Message::decode(&data) {
            Ok(m) => m,
            Err(_) => continue,
        };
        let req = match msg.body {
            MessageBody::Request(r) => r,
            _ => continue,
        };
        let tid = msg.transaction_id.clone();
        let v6 = addr.is_ipv6();
        let reply: Option<Vec<u8>> = match mode {
            Mode::Silent | Mode::QueryOnlySilent => None,
            Mode::ErrorReply => Message {
                transaction_id: tid,
                body: MessageBody::Error(KError { code: 201, message: "scripted error".into() }),
            }
            .encode()
            .ok(),
            Mode::Garbage => {
                let n = 1 + (splitmix(&mut garbage_seed) % 60) as usize;
                Some((0..n).map(|_| splitmix(&mut garbage_seed) as u8).collect())
            }
            Mode::Normal | Mode::NoNodes => {
                let (nodes_v4, nodes_v6, values, token) = match &req {
                    Request::Ping(_) => (vec![], vec![], vec![], None),
                    Request::FindNode(f) => {
                        let n = if mode == Mode::NoNodes { vec![] } else { world.lock().unwrap().closest(&f.target, v6, 8) };
                        if v6 { (vec![], n, vec![], None) } else { (n, vec![], vec![], None) }
                    }
                    Request::GetPeers(g) => {
                        let n = if mode == Mode::NoNodes { vec![] } else { world.lock().unwrap().closest(&g.info_hash, v6, 8) };
                        let vals = store.get(&g.info_hash).cloned().unwrap_or_default();
                        let mut tok = resp_token(&addr, &from);
                        tok.resize(token_len.max(1), 0x5a);
                        if v6 { (vec![], n, vals, Some(tok)) } else { (n, vec![], vals, Some(tok)) }
                    }
                    Request::AnnouncePeer(a) => {
                        let mut tok = resp_token(&addr, &from);
                        tok.resize(token_len.max(1), 0x5a);
                        if a.token == tok {
                            let mut c = from;
                            if let Some(p) = a.port {
                                c.set_port(p);
                            }
                            let e = store.entry(a.info_hash).or_default();
                            if !e.contains(&c) {
                                e.push(c);
                            }
                            rec(format!("RESP_STORED {} {:?} {}", name, a.info_hash, fmt_addr(&c)));
                            (vec![], vec![], vec![], None)
                        } else {
                            rec(format!("RESP_BADTOKEN {} {:?}", name, a.info_hash));
                            let e = Message {
                                transaction_id: tid.clone(),
                                body: MessageBody::Error(KError { code: 203, message: "bad token".into() }),
                            };
                            let _ = hub.send(addr, from, e.encode().unwrap());
                            continue;
                        }
                    }
                };
                Message {
                    transaction_id: tid,
                    body: MessageBody::Response(Response { id, values, nodes_v4, nodes_v6, token }),
                }
                .encode()
                .ok()
            }
        };
        if let Some(bytes) = reply {
            let _ = hub.send(addr, from, bytes);
        }
    }
}

// ---------------------------------------------------------------------------
// scenario
struct NodeSpec {
    name: String,
    addr: SocketAddr,
    id: Option<InfoHash>,
    read_only: Option<bool>,
    announce_port: Option<u16>,
    nodes: Vec<SocketAddr>,
    routers: Vec<String>,
    start: u64,
}

struct RespSpec {
    name: String,
    addr: SocketAddr,
    id: InfoHash,
    mode: Mode,
    token_len: usize,
}

enum Action {
    Inject(SocketAddr, SocketAddr, Vec<u8>),
    InjectMsg(SocketAddr, SocketAddr, String),
    // forge a response towards a node from what it was sent before: kind, node addr, source to use
    Forge(String, SocketAddr, SocketAddr),
    // from, to, tid hex, id, info-hash, port, token variant
    InjectAnn(SocketAddr, SocketAddr, String, InfoHash, InfoHash, Option<u16>, String),
    Search(String, InfoHash, bool, String),
    State(String),
    Contacts(String),
    Boot(String, String),
    LocalAddr(String),
    DropNode(String),
    Mark(String),
    Unworld(SocketAddr),
}

fn kv<'a>(parts: &'a [&'a str], key: &str) -> Option<&'a str> {
    let pre = format!("{key}=");
    parts.iter().find_map(|p| p.strip_prefix(pre.as_str()))
}

fn addr_list(s: &str) -> Vec<SocketAddr> {
    if s == "-" || s.is_empty() {
        vec![]
    } else {
        s.split(',').map(parse_addr).collect()
    }
}

pub fn sim(_args: &[String]) -> i32 {
    let mut script = String::new();
    io::stdin().read_to_string(&mut script).unwrap();

    let mut seed = 1u64;
    let (mut lat_lo, mut lat_hi) = (1_000_000u64, 1_000_000u64);
    let mut rules = vec![];
    let mut outages = vec![];
    let mut sendfail = vec![];
    let mut dup = 0u64;
    let mut loss = 0u64;
    let mut world = World { nodes: vec![] };
    let mut nodes: Vec<NodeSpec> = vec![];
    let mut resps: Vec<RespSpec> = vec![];
    let mut peers: Vec<(String, InfoHash, Vec<SocketAddr>)> = vec![];
    let mut timeline: Vec<(u64, Action)> = vec![];
    let mut end = 10_000_000_000u64;

    for line in script.lines() {
        let p: Vec<&str> = line.split_whitespace().collect();
        if p.is_empty() || p[0].starts_with('#') {
            continue;
        }
        let opt_addr = |s: &str| if s == "*" { None } else { Some(parse_addr(s)) };
        match p[0] {
            "seed" => seed = p[1].parse().unwrap(),
            "latency" => {
                lat_lo = p[1].parse().unwrap();
                lat_hi = p[2].parse().unwrap();
            }
            "lat" => rules.push(Rule { from: opt_addr(p[1]), to: opt_addr(p[2]), lo: p[3].parse().unwrap(), hi: p[4].parse().unwrap() }),
            "outage" => outages.push((parse_addr(p[1]), p[2].parse().unwrap(), p[3].parse().unwrap())),
            "sendfail" => sendfail.push((
                parse_addr(p[1]),
                p[2].parse().unwrap(),
                p[3].parse().unwrap(),
                p.get(4).map_or(1000, |x| x.parse().unwrap()),
            )),
            "terse" => verif_log::set_terse(true),
            "dup" => dup = p[1].parse().unwrap(),
            "loss" => loss = p[1].parse().unwrap(),
            "world" => {
                for x in &p[1..] {
                    let (i, a) = x.split_once('@').unwrap();
                    world.nodes.push((parse_id(i), parse_addr(a)));
                }
            }
            "node" => nodes.push(NodeSpec {
                name: p[1].to_string(),
                addr: parse_addr(p[2]),
                id: kv(&p, "id").map(parse_id),
                // ro=- leaves the builder's default untouched (documented default: read-only)
                read_only: match kv(&p, "ro") {
                    Some("-") | None => None,
                    Some(x) => Some(x == "1"),
                },
                announce_port: kv(&p, "aport").and_then(|x| if x == "-" { None } else { Some(x.parse().unwrap()) }),
                nodes: kv(&p, "nodes").map_or(vec![], addr_list),
                routers: kv(&p, "routers").map_or(vec![], |s| {
                    if s == "-" {
                        vec![]
                    } else {
                        s.split(',').map(|a| parse_addr(a).to_string()).collect()
                    }
                }),
                start: kv(&p, "start").map_or(0, |x| x.parse().unwrap()),
            }),
            "resp" => resps.push(RespSpec {
                name: p[1].to_string(),
                addr: parse_addr(p[2]),
                id: parse_id(kv(&p, "id").unwrap()),
                mode: match kv(&p, "mode").unwrap_or("normal") {
                    "normal" => Mode::Normal,
                    "silent" => Mode::Silent,
                    "error" => Mode::ErrorReply,
                    "garbage" => Mode::Garbage,
                    "nonodes" => Mode::NoNodes,
                    _ => Mode::QueryOnlySilent,
                },
                token_len: kv(&p, "toklen").map_or(8, |x| x.parse().unwrap()),
            }),
            "peers" => peers.push((p[1].to_string(), parse_id(p[2]), addr_list(p[3]))),
            "at" => {
                let t: u64 = p[1].parse().unwrap();
                let a = match p[2] {
                    "inject" => Action::Inject(parse_addr(p[3]), parse_addr(p[4]), hex::decode(p[5]).unwrap()),
                    "injectmsg" => Action::InjectMsg(parse_addr(p[3]), parse_addr(p[4]), p[5..].join(" ")),
                    "forge" => Action::Forge(p[3].to_string(), parse_addr(p[4]), parse_addr(p[5])),
                    "injectann" => Action::InjectAnn(
                        parse_addr(p[3]),
                        parse_addr(p[4]),
                        kv(&p, "tid").unwrap_or("6161").to_string(),
                        parse_id(kv(&p, "id").unwrap()),
                        parse_id(kv(&p, "ih").unwrap()),
                        kv(&p, "port").and_then(|x| if x == "-" { None } else { Some(x.parse().unwrap()) }),
                        kv(&p, "tok").unwrap_or("last").to_string(),
                    ),
                    "search" => Action::Search(p[3].to_string(), parse_id(p[4]), p[5] == "1", p[6].to_string()),
                    "state" => Action::State(p[3].to_string()),
                    "contacts" => Action::Contacts(p[3].to_string()),
                    "boot" => Action::Boot(p[3].to_string(), p[4].to_string()),
                    "localaddr" => Action::LocalAddr(p[3].to_string()),
                    "drop" => Action::DropNode(p[3].to_string()),
                    "mark" => Action::Mark(p[3..].join(" ")),
                    "unworld" => Action::Unworld(parse_addr(p[3])),
                    other => {
                        eprintln!("bad action {other}");
                        return 2;
                    }
                };
                timeline.push((t, a));
            }
            "end" => end = p[1].parse().unwrap(),
            other => {
                eprintln!("bad scenario line: {other}");
                return 2;
            }
        }
    }
    timeline.sort_by_key(|(t, _)| *t);

    let rt = tokio::runtime::Builder::new_current_thread()
        .enable_time()
        .start_paused(true)
        .build()
        .unwrap();

    let panicked = Arc::new(Mutex::new(Vec::<String>::new()));
    {
        let panicked = panicked.clone();
        std::panic::set_hook(Box::new(move |info| {
            let s = format!("{info}").replace('\n', " ");
            panicked.lock().unwrap().push(s.clone());
            verif_log::record(format!("PANIC {s}"));
        }));
    }

    rt.block_on(async move {
        btdht::verif::verif_clock::use_tokio();
        let t_start = tokio::time::Instant::now();
        let hub = Arc::new(Hub {
            inner: Mutex::new(HubInner {
                endpoints: HashMap::new(),
                rng: seed,
                lat_lo,
                lat_hi,
                rules,
                outages,
                sendfail,
                dup_permille: dup,
                loss_permille: loss,
                last_token: HashMap::new(),
                resp_seen: HashMap::new(),
            }),
        });
        let world = Arc::new(Mutex::new(world));
        for r in resps {
            let mut store = HashMap::new();
            for (n, ih, addrs) in &peers {
                if *n == r.name {
                    store.insert(*ih, addrs.clone());
                }
            }
            tokio::spawn(responder(r.name, r.addr, r.id, r.mode, hub.clone(), world.clone(), store, r.token_len));
        }
        // let responders register their endpoints
        tokio::task::yield_now().await;

        let mut dhts: HashMap<String, MainlineDht> = HashMap::new();
        let mut pending_nodes: Vec<NodeSpec> = nodes;
        pending_nodes.sort_by_key(|n| n.start);
        let mut pending_nodes = pending_nodes.into_iter().peekable();

        let start_node = |spec: NodeSpec, hub: &Arc<Hub>| -> (String, MainlineDht) {
            let rx = hub.register(spec.addr);
            let sock = SimSocket { addr: spec.addr, rx: tokio::sync::Mutex::new(rx), hub: hub.clone() };
            let mut b = MainlineDht::builder();
            if let Some(ro) = spec.read_only {
                b = b.set_read_only(ro);
            }
            if let Some(id) = spec.id {
                b = b.set_node_id(id);
            }
            if let Some(p) = spec.announce_port {
                b = b.set_announce_port(p);
            }
            for n in &spec.nodes {
                b = b.add_node(*n);
            }
            for r in &spec.routers {
                b = b.add_router(r.clone());
            }
            rec(format!("NODE_START {} {}", spec.name, fmt_addr(&spec.addr)));
            (spec.name.clone(), b.start(sock).unwrap())
        };

        let mut timeline = timeline.into_iter().peekable();
        loop {
            let tn = pending_nodes.peek().map(|n| n.start);
            let ta = timeline.peek().map(|(t, _)| *t);
            let next = match (tn, ta) {
                (None, None) => break,
                (Some(a), None) => (a, true),
                (None, Some(b)) => (b, false),
                (Some(a), Some(b)) => {
                    if a <= b {
                        (a, true)
                    } else {
                        (b, false)
                    }
                }
            };
            if next.0 > end {
                break;
            }
            tokio::time::sleep_until(t_start + Duration::from_nanos(next.0)).await;
            if next.1 {
                let spec = pending_nodes.next().unwrap();
                let (n, d) = start_node(spec, &hub);
                dhts.insert(n, d);
                continue;
            }
            let (_, action) = timeline.next().unwrap();
            match action {
                Action::Inject(from, to, data) => {
                    let _ = hub.send(from, to, data);
                }
                Action::InjectMsg(from, to, desc) => match parse_msg(&desc) {
                    Ok(m) => {
                        let _ = hub.send(from, to, m.encode().unwrap());
                    }
                    Err(e) => rec(format!("BADMSG {e}")),
                },
                Action::Forge(kind, node, other) => {
                    let seen = hub.inner.lock().unwrap().resp_seen.get(&node).cloned().unwrap_or_default();
                    if let Some((from, data)) = match kind.as_str() {
                        "old" => seen.first().cloned(),
                        _ => seen.last().cloned(),
                    } {
                        match kind.as_str() {
                            // the same datagram again (duplicate / replay of an old one)
                            "dup" | "old" => {
                                let _ = hub.send(from, node, data);
                            }
                            // right transaction id, different source address
                            "othersrc" => {
                                let _ = hub.send(other, node, data);
                            }
                            // transaction id with one bit flipped in the message part / the action part
                            "wrongmid" | "wrongaid" | "shorttid" | "longtid" => {
                                if let Ok(mut m) = Message::decode(&data) {
                                    let n = m.transaction_id.len();
                                    if n == 8 {
                                        match kind.as_str() {
                                            "wrongmid" => m.transaction_id[7] ^= 1,
                                            "wrongaid" => m.transaction_id[2] ^= 1,
                                            // the right 8 bytes followed by one more
                                            "longtid" => m.transaction_id.push(0),
                                            _ => m.transaction_id.truncate(7),
                                        }
                                    }
                                    let _ = hub.send(from, node, m.encode().unwrap());
                                }
                            }
                            _ => {}
                        }
                    } else {
                        rec(format!("FORGE_NOTHING {kind}"));
                    }
                }
                Action::InjectAnn(from, to, tid, id, ih, port, variant) => {
                    let (kind, other) = match variant.split_once('@') {
                        Some((k, a)) => (k.to_string(), Some(parse_addr(a))),
                        None => (variant.clone(), None),
                    };
                    let key = (to, other.unwrap_or(from));
                    let base = hub.inner.lock().unwrap().last_token.get(&key).cloned().unwrap_or(vec![7u8; 20]);
                    let token: Vec<u8> = match kind.as_str() {
                        "last" | "other" => base,
                        "flip" => {
                            let mut b = base;
                            let n = b.len();
                            b[n / 2] ^= 0x04;
                            b
                        }
                        "short" => base[..base.len().saturating_sub(1)].to_vec(),
                        "long" => {
                            let mut b = base;
                            b.push(1);
                            b
                        }
                        "zero" => vec![0u8; 20],
                        // a very long (invalid) token: the query still fits one datagram
                        "huge" => vec![0x41u8; 1200],
                        "empty" => vec![],
                        _ => base,
                    };
                    let m = Message {
                        transaction_id: hex::decode(&tid).unwrap(),
                        body: MessageBody::Request(Request::AnnouncePeer(btdht::message::AnnouncePeerRequest {
                            id,
                            info_hash: ih,
                            port,
                            token,
                        })),
                    };
                    let _ = hub.send(from, to, m.encode().unwrap());
                }
                Action::Search(node, ih, announce, tag) => {
                    if let Some(d) = dhts.get(&node) {
                        rec(format!("SEARCH_CALL {tag} {node} {ih:?} {}", announce as u8));
                        let mut stream = d.search(ih, announce);
                        tokio::spawn(async move {
                            while let Some(a) = stream.next().await {
                                rec(format!("STREAM {tag} {}", fmt_addr(&a)));
                            }
                            rec(format!("STREAM_END {tag}"));
                        });
                    } else {
                        rec(format!("NO_SUCH_NODE {node}"));
                    }
                }
                Action::State(node) => {
                    if let Some(d) = dhts.get(&node) {
                        let d = d.clone();
                        tokio::spawn(async move {
                            match tokio::time::timeout(Duration::from_secs(30), d.get_state()).await {
                                Ok(Some(s)) => rec(format!(
                                    "API_STATE {node} running={} bootstrapped={} good={} questionable={} buckets={}",
                                    s.is_running as u8, s.bootstrapped as u8, s.good_node_count, s.questionable_node_count, s.bucket_count
                                )),
                                Ok(None) => rec(format!("API_STATE {node} NONE")),
                                Err(_) => rec(format!("API_STATE {node} HANG")),
                            }
                        });
                    }
                }
                Action::Contacts(node) => {
                    if let Some(d) = dhts.get(&node) {
                        let d = d.clone();
                        tokio::spawn(async move {
                            match tokio::time::timeout(Duration::from_secs(30), d.load_contacts()).await {
                                Ok(Ok((g, q))) => {
                                    let mut g: Vec<String> = g.iter().map(fmt_addr).collect();
                                    let mut q: Vec<String> = q.iter().map(fmt_addr).collect();
                                    g.sort();
                                    q.sort();
                                    rec(format!("API_CONTACTS {node} good={} questionable={}", g.join(","), q.join(",")));
                                }
                                Ok(Err(_)) => rec(format!("API_CONTACTS {node} ERR")),
                                Err(_) => rec(format!("API_CONTACTS {node} HANG")),
                            }
                        });
                    }
                }
                Action::Boot(node, tag) => {
                    if let Some(d) = dhts.get(&node) {
                        let d = d.clone();
                        rec(format!("BOOT_CALL {tag} {node}"));
                        tokio::spawn(async move {
                            let ok = d.bootstrapped().await;
                            rec(format!("BOOTED {tag} {}", ok as u8));
                        });
                    }
                }
                Action::LocalAddr(node) => {
                    if let Some(d) = dhts.get(&node) {
                        let d = d.clone();
                        tokio::spawn(async move {
                            match tokio::time::timeout(Duration::from_secs(30), d.local_addr()).await {
                                Ok(Ok(a)) => rec(format!("API_LOCALADDR {node} {}", fmt_addr(&a))),
                                Ok(Err(_)) => rec(format!("API_LOCALADDR {node} ERR")),
                                Err(_) => rec(format!("API_LOCALADDR {node} HANG")),
                            }
                        });
                    }
                }
                Action::DropNode(node) => {
                    dhts.remove(&node);
                    rec(format!("NODE_DROPPED {node}"));
                }
                Action::Mark(s) => rec(format!("MARK {s}")),
                // from now on no responder names this address in its node lists
                Action::Unworld(a) => {
                    world.lock().unwrap().nodes.retain(|(_, x)| *x != a);
                    rec(format!("UNWORLD {}", fmt_addr(&a)));
                }
            }
        }
        tokio::time::sleep_until(t_start + Duration::from_nanos(end)).await;
        rec("END".to_string());
    });

    let out = verif_log::drain();
    let stdout = io::stdout();
    let mut w = io::BufWriter::new(stdout.lock());
    use std::io::Write;
    for l in out {
        writeln!(w, "{l}").unwrap();
    }
    0
}
